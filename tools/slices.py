"""slices.py -- verbatim code regions cut out of long engine functions.

A slice is a list of *regions* of one source file.  Each region is found by a start anchor
(a regex that must match exactly one line inside the named enclosing function) and an end rule:

  ("line",)            the start line only
  ("block",)           from the start line to the line closing the first `{` opened on/after it
  ("enclosing",)       from the start line to the end of the block that contains it
  ("until", regex)     up to, excluding, the first later line matching regex
  ("through", regex)   up to and including the brace-matched block that starts at the first
                       later line matching regex

The region text is copied VERBATIM (no token is changed) into a wrapper function whose header,
prologue, inter-region glue and epilogue are given here.  What the wrapper drops from the
enclosing function is stated in the slice's "drops" text and repeated in the evidence.
A missing or ambiguous anchor raises LostAnchor -> exit 2 (UNDECIDED), never a violation.
"""
import re, hashlib

CFG = "#[cfg(any(kani, verif_replay))]"


class LostAnchor(Exception):
    pass


def _mask(text: str) -> str:
    """Return text with the contents of strings, chars and comments replaced by spaces
    (same length, newlines kept) so that brace matching sees only code braces."""
    out = list(text)
    i, n = 0, len(text)

    def blank(a, b):
        for k in range(a, b):
            if out[k] != "\n":
                out[k] = " "

    while i < n:
        c = text[i]
        if text.startswith("//", i):
            j = text.find("\n", i)
            j = n if j < 0 else j
            blank(i, j)
            i = j
        elif text.startswith("/*", i):
            depth, j = 1, i + 2
            while j < n and depth:
                if text.startswith("/*", j):
                    depth += 1; j += 2
                elif text.startswith("*/", j):
                    depth -= 1; j += 2
                else:
                    j += 1
            blank(i, j)
            i = j
        elif c == '"':
            j = i + 1
            while j < n and text[j] != '"':
                j += 2 if text[j] == "\\" else 1
            blank(i + 1, j)
            i = j + 1
        elif c == "r" and re.match(r'r#*"', text[i:]) and (i == 0 or not (text[i - 1].isalnum() or text[i - 1] == "_")):
            m = re.match(r'r(#*)"', text[i:])
            close = '"' + m.group(1)
            j = text.find(close, i + len(m.group(0)))
            j = n if j < 0 else j
            blank(i + len(m.group(0)), j)
            i = j + len(close)
        elif c == "'":
            # char literal or lifetime
            m = re.match(r"'(\\.[^']*|[^\\'])'", text[i:])
            if m:
                blank(i + 1, i + len(m.group(0)) - 1)
                i += len(m.group(0))
            else:
                i += 1
        else:
            i += 1
    return "".join(out)


def _block_end(masked_lines, start_idx):
    """index of the line on which the first '{' opened at/after start_idx is closed"""
    depth, opened = 0, False
    for k in range(start_idx, len(masked_lines)):
        for ch in masked_lines[k]:
            if ch == "{":
                depth += 1; opened = True
            elif ch == "}":
                depth -= 1
                if opened and depth == 0:
                    return k
                if depth < 0:
                    raise LostAnchor("unbalanced braces")
    raise LostAnchor("unterminated block")


def _fn_range(lines, masked_lines, fn_re):
    hits = [k for k, l in enumerate(masked_lines) if re.search(fn_re, l)]
    if len(hits) != 1:
        raise LostAnchor(f"enclosing fn /{fn_re}/ matched {len(hits)} lines")
    return hits[0], _block_end(masked_lines, hits[0])


def _enclosing_end(masked_lines, start_idx):
    """index of the last line before the `}` that closes the block containing line start_idx"""
    depth = 0
    for k in range(start_idx, len(masked_lines)):
        for ch in masked_lines[k]:
            if ch == "{":
                depth += 1
            elif ch == "}":
                depth -= 1
                if depth < 0:
                    return k - 1
    raise LostAnchor("enclosing block not closed")


def find_region(text, within, start, end, pick=None):
    lines = text.split("\n")
    masked = _mask(text).split("\n")
    lo, hi = (0, len(lines) - 1) if within is None else _fn_range(lines, masked, within)
    hits = [k for k in range(lo, hi + 1) if re.search(start, lines[k])]
    if len(hits) != 1 and not (pick == "first" and hits):
        raise LostAnchor(f"start /{start}/ matched {len(hits)} lines in /{within}/")
    a = hits[0]
    kind = end[0]
    if kind == "line":
        b = a
    elif kind == "block":
        b = _block_end(masked, a)
    elif kind == "enclosing":
        b = _enclosing_end(masked, a)
    elif kind == "until":
        later = [k for k in range(a + 1, hi + 1) if re.search(end[1], lines[k])]
        if not later:
            raise LostAnchor(f"end /{end[1]}/ not found")
        b = later[0] - 1
    elif kind == "through":
        later = [k for k in range(a + 1, hi + 1) if re.search(end[1], lines[k])]
        if not later:
            raise LostAnchor(f"end /{end[1]}/ not found")
        b = _block_end(masked, later[0])
    else:
        raise ValueError(kind)
    if b > hi:
        raise LostAnchor("region leaves the enclosing function")
    return a, b, "\n".join(lines[a:b + 1])


def cut_slice(text, sl):
    # every wrapper can be switched off by `--cfg verif_noslice_<name>` (set when its region is lost or no longer
    # compiles in the wrapper), so that one reshaped region does not take the other obligations down with it
    cfg = f"#[cfg(all(any(kani, verif_replay), not(verif_noslice_{sl['name']})))]"
    items = sl["items"].replace(CFG, cfg) if sl.get("items") else None
    parts = ([items] if items else []) + [cfg, sl["header"] + " {", sl.get("pre", "")]
    meta = {"name": sl["name"], "file": sl["file"], "regions": [], "drops": sl.get("drops", "")}
    glue = sl.get("between", [])
    for idx, rg in enumerate(sl["regions"]):
        try:
            a, b, body = find_region(text, sl.get("within"), rg["start"], rg["end"], rg.get("pick"))
        except LostAnchor as e:
            raise LostAnchor(f"{sl['name']}: {e}")
        if rg.get("inner"):
            # body of the block only: drop the line that opens it and the line that closes it
            lines_ = body.split("\n")
            body = "\n".join(lines_[1:-1])
            a, b = a + 1, b - 1
        for pat in rg.get("must_not", []):
            if re.search(pat, _mask(body)):
                raise LostAnchor(f"{sl['name']}: region shape changed: /{pat}/ occurs in it")
        if idx > 0:
            parts.append(glue[idx - 1] if idx - 1 < len(glue) else "")
        parts.append(f"// ---- verbatim {sl['file']} lines {a + 1}-{b + 1} ----")
        parts.append(body)
        parts.append("// ---- end verbatim ----")
        meta["regions"].append({"lines": [a + 1, b + 1], "sha256": hashlib.sha256(body.encode()).hexdigest()[:16]})
    parts.append(sl.get("post", ""))
    parts.append("}")
    return "\n".join(parts), meta


# ------------------------------------------------------------------------------------------------
# The slices.  Free variables of a region become parameters / prologue locals of the wrapper.
# ------------------------------------------------------------------------------------------------
FEN_SCAN_ITEMS = CFG + """
#[derive(Clone, Copy)]
pub(crate) struct VerifFenScan {
    pub row: i8, pub col: i8, pub hash: u64, pub score: Score,
    pub board: [Option<Piece>; 64], pub past_scores: [Score; 64], pub past_hashes: [u64; 64],
    pub white_king_pos: Option<Position>, pub black_king_pos: Option<Position>,
}"""

SLICES = [
    {
        "name": "verif_pgn_step",
        "file": "chess/mod.rs",
        "within": r"^\s*pub fn get_pgn\(&self\) -> String",
        "header": "impl Game { pub(crate) fn verif_pgn_step(i: usize, _move: &String, s: &mut String)",
        "regions": [{"start": r"^\s*for \(i, _move\) in moves\.iter\(\)\.enumerate\(\) \{", "end": ("block",), "inner": True, "must_not": [r"\bfor\b", r"\bwhile\b", r"\bloop\b"]}],
        "post": "}",
        "drops": "the collect() of the per-move texts (Move::pgn_notation, C20's own contract), String::new(), the loop header",
    },
    {
        "name": "verif_display_cell",
        "file": "chess/mod.rs",
        "within": r"^impl std::fmt::Display for Game \{",
        "header": "impl Game { pub(crate) fn verif_display_cell(&self, i: i8, j: i8) -> char",
        "regions": [
            {"start": r"^\s*let position = Position::new", "end": ("line",)},
            {"start": r"^\s*self\.get_position\(position\)\s*$", "end": ("until", r"^\s*\)\?;")},
        ],
        "post": "}",
        "drops": "the `write!(f, \"|{}\", ...)` call around the cell expression (core::fmt), the `for i in (0..8).rev()` / `for j in 0..8` headers, "
                 "the rank number and the `|` / file-letter lines",
    },
    {
        "name": "verif_fen_board_loop",
        "file": "chess/mod.rs",
        "within": r"^\s*pub fn fen\(&self\) -> String",
        "header": "impl Game { pub(crate) fn verif_fen_board_loop(&self, result: &mut String)",
        "regions": [{"start": r"^\s*for row in \(0\.\.8\)\.rev\(\) \{", "end": ("block",)}],
        "post": "}",
        "drops": "`let mut result = String::new()` and the field writer after the loop",
    },
    {
        "name": "verif_fen_rank",
        "file": "chess/mod.rs",
        "within": r"^\s*pub fn fen\(&self\) -> String",
        "header": "impl Game { pub(crate) fn verif_fen_rank(&self, row: i8, result: &mut String)",
        "regions": [{"start": r"^\s*for row in \(0\.\.8\)\.rev\(\) \{", "end": ("block",), "inner": True}],
        "post": "}",
        "drops": "`let mut result = String::new()` and the `for row in (0..8).rev()` header (rank 8 first): glue",
    },
    {
        "name": "verif_fen_fields",
        "file": "chess/mod.rs",
        "within": r"^\s*pub fn fen\(&self\) -> String",
        "header": "impl Game { pub(crate) fn verif_fen_fields(&self, result: &mut String)",
        "regions": [{"start": r"^\s*// Add current player", "end": ("until", r"^\s*result\s*$")}],
        "post": "}",
        "drops": "the board loop before it and the final `result` expression",
    },
    {
        "name": "verif_fen_step",
        "file": "chess/mod.rs",
        "within": r"^\s*pub fn new\(fen: &str\)",
        "items": FEN_SCAN_ITEMS,
        "header": "impl Game { pub(crate) fn verif_fen_step(character: char, st: &mut VerifFenScan, piece_scores: &[Cell<&'static [i16; 64]>; 6]) -> anyhow::Result<()>",
        "pre": "let VerifFenScan { mut row, mut col, mut hash, mut score, mut board, mut past_scores, mut past_hashes, mut white_king_pos, mut black_king_pos } = *st;\n"
               "for _once in 0..1 {",
        "regions": [{"start": r"^\s*for character in pieces\.chars\(\) \{", "end": ("block",), "inner": True}],
        "post": "}\n*st = VerifFenScan { row, col, hash, score, board, past_scores, past_hashes, white_king_pos, black_king_pos };\nOk(()) }",
        "drops": "split_ascii_whitespace, the declarations before the loop, the `for character in pieces.chars()` header, the `row != 0 || col != 8` test after it",
    },
    {
        "name": "verif_fen_board_end",
        "file": "chess/mod.rs",
        "within": r"^\s*pub fn new\(fen: &str\)",
        "header": "impl Game { pub(crate) fn verif_fen_board_end(row: i8, col: i8) -> anyhow::Result<()>",
        "regions": [{"start": r"^\s*if row != 0", "end": ("block",)}],
        "post": "Ok(()) }",
        "drops": "nothing of its own: the test that follows the scanner loop",
    },
    {
        "name": "verif_fen_side",
        "file": "chess/mod.rs",
        "within": r"^\s*pub fn new\(fen: &str\)",
        "header": "impl Game { pub(crate) fn verif_fen_side(next_player: &str) -> anyhow::Result<Player>",
        "regions": [{"start": r"^\s*let current_player = match next_player", "end": ("block",)}],
        "post": "Ok(current_player) }",
        "drops": "the `let Some(next_player) = terms.next()` line and the side-key XOR after it",
    },
    {
        "name": "verif_fen_side_key",
        "file": "chess/mod.rs",
        "within": r"^\s*pub fn new\(fen: &str\)",
        "header": "impl Game { pub(crate) fn verif_fen_side_key(current_player: Player, hash_in: u64) -> u64",
        "pre": "let mut hash = hash_in;",
        "regions": [{"start": r"^\s*if current_player == Player::Black \{", "end": ("block",)}],
        "post": "hash }",
        "drops": "nothing of its own: the statement between the side field and the castling field",
    },
    {
        "name": "verif_fen_castling",
        "file": "chess/mod.rs",
        "within": r"^\s*pub fn new\(fen: &str\)",
        "header": "impl Game { pub(crate) fn verif_fen_castling(castling_rights: &str, state_in: GameState) -> anyhow::Result<GameState>",
        "pre": "let mut state = state_in;",
        "regions": [{"start": r"^\s*for right in castling_rights\.chars\(\) \{", "end": ("block",)}],
        "post": "Ok(state) }",
        "drops": "the `let Some(castling_rights) = terms.next()` line",
    },
    {
        "name": "verif_fen_ep",
        "file": "chess/mod.rs",
        "within": r"^\s*pub fn new\(fen: &str\)",
        "header": "impl Game { pub(crate) fn verif_fen_ep(en_passant: &str, state_in: GameState, current_player: Player, board: [Option<Piece>; 64]) -> anyhow::Result<GameState>",
        "pre": "let mut state = state_in;",
        "regions": [{"start": r'^\s*if en_passant != "-" \{', "end": ("block",)}],
        "post": "Ok(state) }",
        "drops": "the `let Some(en_passant) = terms.next()` line (the scanned `board` is in scope at this point of Game::new and is therefore a parameter, "
                 "although the current code does not read it)",
    },
    {
        "name": "verif_fen_tail",
        "file": "chess/mod.rs",
        "within": r"^\s*pub fn new\(fen: &str\)",
        "header": "impl Game { pub(crate) fn verif_fen_tail(board: [Option<Piece>; 64], past_scores: [Score; 64], past_hashes: [u64; 64], "
                  "piece_scores: [Cell<&'static [i16; 64]>; 6], white_king_pos: Option<Position>, black_king_pos: Option<Position>, "
                  "current_player: Player, score: Score, hash: u64, state: GameState) -> anyhow::Result<Self>",
        "regions": [{"start": r"^\s*let Some\(white_king_pos\) = white_king_pos else \{", "end": ("until", r"^\s*Ok\(game\)")}],
        "post": "Ok(game) }",
        "drops": "everything before the king-presence tests",
    },
    {
        "name": "verif_position_step",
        "file": "uci.rs",
        "within": r"^fn command_position\(",
        "header": "pub(crate) fn verif_position_step(data: &mut Data, move_str: &str) -> anyhow::Result<()>",
        "pre": "let game = data.current_game.as_mut().unwrap();\nfor _once in 0..1 {",
        "regions": [{"start": r"^\s*for move_str in terms\.by_ref\(\) \{", "end": ("block",), "inner": True}],
        "post": "}\nOk(())",
        "drops": "`position` keyword handling (startpos / fen ... / moves), Game::new call and its error path, the `for move_str in terms.by_ref()` header",
    },
    {
        "name": "verif_autoplay_tail",
        "file": "autoplay.rs",
        "within": r"^pub fn autoplay\(",
        "header": "pub(crate) fn verif_autoplay_tail(game: &mut Game, cache: &mut TranspositionTable, search_is_running: &Arc<AtomicBool>) -> bool",
        "pre": "let mut game = game;\nlet mut cache = cache;\nloop {",
        "regions": [{"start": r"^\s*let next_move = match get_best_move_until_stop\(", "end": ("until", r"^    \}\s*$")}],
        "post": "return true;\n}\nfalse",
        "drops": "everything of the self-play loop before the search call: move list, printing, timer thread; the `loop` header",
    },
    {
        "name": "verif_get_moves_prologue",
        "file": "chess/mod.rs",
        "within": r"^\s*pub fn get_moves\(",
        "header": "impl Game { pub(crate) fn verif_get_moves_prologue(&mut self, moves: &mut ArrayVec<Move, 256>, went_on: &mut bool)",
        "regions": [{"start": r"^\s*moves\.clear\(\);", "end": ("until", r"^\s*let mut push = ")}],
        "post": "*went_on = true; }",
        "drops": "everything after the early exit",
    },
    {
        "name": "verif_push_closure",
        "file": "chess/mod.rs",
        "within": r"^\s*pub fn get_moves\(",
        "header": "impl Game { pub(crate) fn verif_push_closure(moves: &mut ArrayVec<Move, 256>, candidate: Move)",
        "regions": [{"start": r"^\s*let mut push = \|_move\| \{", "end": ("block",)}],
        "post": "push(candidate); }",
        "drops": "everything of get_moves around the definition of the closure handed to the generators; the wrapper calls the closure once",
    },
    {
        "name": "verif_gen_body",
        "file": "chess/mod.rs",
        "within": r"^\s*pub fn get_moves\(",
        "header": "impl Game { pub(crate) fn verif_gen_body(&mut self, row: i8, col: i8, mut push: impl FnMut(Move))",
        "regions": [{"start": r"^\s*let pos = Position::new_assert\(row, col\);", "end": ("enclosing",), "must_not": [r"\bfor\b", r"\bwhile\b", r"\bloop\b"]}],
        "post": "}",
        "drops": "moves.clear(), the king_exists early return, the closure definition, the two `for row/col in 0..8` headers",
    },
    {
        "name": "verif_gen_block",
        "file": "chess/mod.rs",
        "within": r"^\s*pub fn get_moves\(",
        "header": "impl Game { pub(crate) fn verif_gen_block(&mut self, mut push: impl FnMut(Move))",
        "regions": [{"start": r"^\s*for (row|col) in 0\.\.8 \{", "end": ("block",), "pick": "first"}],
        "post": "}",
        "drops": "moves.clear(), the king_exists early return, the closure definition (push_unchecked into the 256-slot buffer)",
    },
    {
        "name": "verif_filter_block",
        "file": "chess/mod.rs",
        "within": r"^\s*pub fn get_moves\(",
        "header": "impl Game { pub(crate) fn verif_filter_block(&mut self, moves: &mut ArrayVec<Move, 256>, verify_king: bool)",
        "regions": [{"start": r"^\s*if verify_king \{", "end": ("block",)}],
        "post": "}",
        "drops": "the generation phase before it",
    },
    {
        "name": "verif_filter_body",
        "file": "chess/mod.rs",
        "within": r"^\s*pub fn get_moves\(",
        "header": "impl Game { pub(crate) fn verif_filter_body(&mut self, moves: &mut ArrayVec<Move, 256>, index: usize, mut keep_index: usize, "
                  "is_king_targeted: bool, king_position: Position, player: Player) -> usize",
        "pre": "for _once in 0..1 {",
        "regions": [{"start": r"^\s*for index in 0\.\.moves\.len\(\) \{", "end": ("block",), "inner": True, "must_not": [r"\bfor\b", r"\bwhile\b", r"\bloop\b"]}],
        "post": "}\nkeep_index }",
        "drops": "the `for index in 0..moves.len()` header, the four `let` lines before it (player, king_position, is_king_targeted, keep_index) "
                 "and moves.truncate(keep_index) after it",
    },
    {
        "name": "verif_timer_block",
        "file": "uci.rs",
        "within": r"^fn command_go\(",
        "header": "pub(crate) fn verif_timer_block(time: Option<Duration>, infinite: bool, depth: Option<u8>, search_is_running: &Arc<AtomicBool>)",
        "pre": "let _ = depth;",
        "regions": [{"start": r"^\s*if let Some\(time\) = time \{", "end": ("block",)}],
        "post": "",
        "drops": "everything before the `if let Some(time) = time` block (argument parsing, budget arithmetic = slice verif_budget) and the search "
                 "thread after it; `depth` (in scope at this point of command_go, not read by the current code) is a parameter so that a change "
                 "making the timer depend on it still compiles",
    },
    {
        "name": "verif_budget",
        "file": "uci.rs",
        "within": r"^fn command_go\(",
        "header": "pub(crate) fn verif_budget(game: &Game, wtime: Option<u64>, btime: Option<u64>, winc: Option<u64>, "
                  "binc: Option<u64>, move_time: Option<u64>) -> Option<Duration>",
        "regions": [
            {"start": r"^\s*const FRACTION_OF_TOTAL_TIME", "end": ("through", r"^\s*if let Some\(move_time\) = move_time")},
            {"start": r"let time = time\.saturating_sub\(", "end": ("line",)},
        ],
        # glue standing for `if let Some(time) = time { if !infinite {`
        "between": ["let time = time?;"],
        "post": "Some(time)",
        "drops": "argument parsing loop, the `infinite` flag test, println!, the two thread::spawn blocks",
    },
]
