"""evidence.py -- writes /verif/evidence/<id>.json from what a run actually did."""
import json, os
import obligations


def mechanical_scan(verif):
    """cheap scan of the contract sources for everything that is an assumption rather than a proof"""
    import re, glob
    out = {"assume_sites": 0, "stubs": {}, "unsafe_blocks_in_contracts": 0, "files": 0}
    for f in sorted(glob.glob(os.path.join(verif, "contracts", "*.rs"))) + [os.path.join(verif, "tools", "gen_instances.py")]:
        t = open(f).read()
        out["files"] += 1
        out["assume_sites"] += len(re.findall(r"\bnd::assume\(|\bkani::assume\(", t))
        out["unsafe_blocks_in_contracts"] += len(re.findall(r"\bunsafe\s*\{", t))
        for m in re.finditer(r"kani::stub\(([^,]+),\s*([^)]+)\)", t):
            k = m.group(1).strip()
            out["stubs"].setdefault(k, set()).add(m.group(2).strip())
    out["stubs"] = {k: sorted(v) for k, v in sorted(out["stubs"].items())}
    out["note"] = ("assume sites are harness preconditions (WF clauses, type validity) -- each harness states them in its doc comment; "
                   "stubs of engine functions are abstract callees whose contracts have their own obligations; stubs of std functions "
                   "(Duration::*, String::push*, Backtrace::capture, alloc::fmt::format) are assumed dependency contracts (DESIGN.md A4); "
                   "unsafe blocks in contracts touch only ghost statics / build &str from ASCII bytes / set ArrayVec lengths in constructors")
    return out


def write(verif, prop, tier, seed, obs, total_instances, results, violations, known_hits, slices_meta, wall):
    meta = obligations.PROPS[prop]
    harnesses = []
    n_checks = n_discharged = 0
    backends = {}
    functions = []
    all_complete = True
    masked = sorted(set(o["name"] for o, _, _ in known_hits))
    for o in obs:
        r = results.get(o["name"], {"status": "not-run", "detail": {}})
        d = r["detail"]
        be = o.get("backend", "kani")
        bname = {"kani": "kani-0.68/cbmc-6.11/cadical", "verus": "verus-0.2026.09.13/z3", "smt": "cvc5+z3 (SMT-LIB QF_BVFP)",
                 "native": "native run (test, not proof)"}.get(be, be)
        b = backends.setdefault(bname, {"obligation_units": 0, "checks": 0, "discharged_checks": 0, "solver_s": 0.0})
        nc = int(d.get("n_checks") or 0)
        counted = o.get("counts_as_proof", True) and o["name"] not in masked
        if counted:
            # an obligation unit that produced no verifier result still counts as (at least) one
            # undischarged obligation, so discharged == obligations only if everything finished
            n_checks += nc if nc else 1
            if r["status"] == "discharged":
                n_discharged += nc
        b["obligation_units"] += 1
        b["checks"] += nc
        if r["status"] == "discharged":
            b["discharged_checks"] += nc
        b["solver_s"] = round(b["solver_s"] + float(d.get("solver_s") or 0.0), 1)
        for f in o.get("functions", []):
            if f not in functions:
                functions.append(f)
        if not o.get("complete", True):
            all_complete = False
        harnesses.append({
            "obligation": o["name"], "harness": o.get("harness"), "backend": be, "status": r["status"],
            "checks": nc, "solver_s": d.get("solver_s"), "wall_s": d.get("wall_s"),
            "statement": o.get("statement"), "complete": o.get("complete", True),
            "bounded_note": o.get("bounded_note"),
            "stubs": d.get("stubs") or None,
            "reason": d.get("reason"),
            "failed": d.get("failed") or None,
            "counted_under_discharged": bool(counted),
        })
    run_instances = len(obs)
    # "exhaustive": every unit of every tier was run (no seeded subset of a per-square family was left out)
    exhaustive = (run_instances == total_instances)
    used_slices = sorted(set(sl for o in obs for sl in obligations.slices_of(o["name"])) | set(meta.get("slices", [])))
    level = meta["level"]
    samples = [{"obligation": h["obligation"], "statement": h["statement"], "status": h["status"], "checks": h["checks"]}
               for h in harnesses[:6]]
    cov = {
        "obligations": n_checks,
        "discharged": n_discharged,
        "checker_cmd": "./verify check %s --tier %s   (per harness: cargo kani --harness <h> --exact %s)" % (
            prop, tier, " ".join(__import__("kani_run").BASE_FLAGS)),
        "trusted_base": meta["trusted_base"],
        "explanation": meta["explanation"],
        "unit": "obligation = one CBMC property (assertion, overflow, bounds, pointer, unwinding check) of a harness, "
                "one Verus function, or one SMT query; an obligation unit (harness) that gave no result counts as one undischarged obligation",
        "functions_under_contract": functions,
        "obligation_units_run": run_instances,
        "obligation_units_total_all_tiers": total_instances,
        "exhaustive": bool(exhaustive),
        "backends": backends,
        "harnesses": harnesses,
        "samples": samples,
        "slices": [s for s in slices_meta if s["name"] in used_slices],
        "all_units_complete": bool(all_complete),
        "known_findings_masked": [{"obligation": o["name"], "check": f["desc"], "finding": k["text"]} for o, k, f in known_hits],
        "undecided": [h["obligation"] for h in harnesses if h["status"] == "undecided"],
        "not_machine_checked": meta.get("not_machine_checked", []),
        "mechanical_scan_of_contracts": mechanical_scan(verif),
    }
    doc = {
        "property_id": prop, "tier": tier, "seed": seed, "level": level, "coverage": cov,
        "assumptions": meta["assumptions"], "wall_s": round(wall, 1), "violations": len(violations),
    }
    # runs against a scratch copy of the repository (seeded-defect experiments, VERIF_REPO set) never touch evidence/
    import gen_tree
    evdir = "evidence" if os.path.realpath(gen_tree.REPO) == "/repo" else "evidence_scratch"
    doc["repo"] = gen_tree.REPO
    os.makedirs(os.path.join(verif, evdir), exist_ok=True)
    json.dump(doc, open(os.path.join(verif, evdir, f"{prop}.json"), "w"), indent=1)
    return doc
