"""findings.py -- known_findings.txt (committed; never written at run time).

  known: property=<id> obligation=<obligation name> check="<substring of the failing check's description>" <what fails, with witness>
  fixed: property=<id> <commit> <what failed>

A `known:` line masks exactly one failing check of one obligation of one property.  Any other failing
check of the same obligation, or the same check in another obligation, is still a VIOLATION.
`fixed:` lines mask nothing.
"""
import re, os


def load(path):
    out = []
    if not os.path.exists(path):
        return out
    for line in open(path):
        line = line.strip()
        if not line.startswith("known:"):
            continue
        m = re.match(r'known:\s+property=(\S+)\s+obligation=(\S+)\s+check="([^"]*)"\s*(.*)$', line)
        if not m:
            continue
        out.append({"property": m.group(1), "obligation": m.group(2), "check": m.group(3), "text": m.group(4)})
    return out


def matches(known, prop, obname, desc):
    for k in known:
        if k["property"] == prop and k["obligation"] == obname and k["check"] in desc:
            return k
    return None
