#!/usr/bin/env python3
"""seedtool.py -- bookkeeping for seeded defects (/verif/seeded/<id>/{patch.diff, demo.rs, notes.md, meta.json}).

  seedtool.py import <dir-with-patch.diff> <id>       copy a sub-agent's seed into /verif/seeded/<id>
  seedtool.py confirm <id>                            re-confirm it in a scratch worktree of /repo:
                                                      builds, baseline tests still pass, demo fails with / passes without
  seedtool.py check <id> <prop> [<prop> ...]          run ./verify check <prop> against a scratch worktree with the patch applied

Nothing is ever applied to /repo itself: every step uses `git -C /repo worktree add` under $TMPDIR and removes it.
"""
import json, os, re, shutil, subprocess, sys, tempfile, time

VERIF = os.path.dirname(os.path.dirname(os.path.abspath(__file__)))
SEEDED = os.path.join(VERIF, "seeded")
SKIP = ["perft5_kiwipete", "perft6_position_4", "perft7_position_3"]


def sh(cmd, cwd=None, timeout=3600, env=None):
    p = subprocess.run(cmd, cwd=cwd, shell=isinstance(cmd, str), capture_output=True, text=True, timeout=timeout, env=env)
    return p.returncode, p.stdout + p.stderr


def worktree():
    d = tempfile.mkdtemp(prefix="verif-seedwt-")
    os.rmdir(d)
    rc, out = sh(["git", "-C", "/repo", "worktree", "add", "-q", "--detach", d, "HEAD"])
    if rc != 0:
        raise RuntimeError(out)
    return d


def drop(d):
    sh(["git", "-C", "/repo", "worktree", "remove", "--force", d])
    shutil.rmtree(d, ignore_errors=True)


def meta_path(i):
    return os.path.join(SEEDED, i, "meta.json")


def load_meta(i):
    try:
        return json.load(open(meta_path(i)))
    except Exception:
        return {"id": i}


def save_meta(i, m):
    json.dump(m, open(meta_path(i), "w"), indent=1)


def demo_target(i):
    notes = open(os.path.join(SEEDED, i, "notes.md")).read() if os.path.exists(os.path.join(SEEDED, i, "notes.md")) else ""
    for line in notes.splitlines():
        if re.search(r"append", line, re.I):
            m = re.search(r"`(src/[\w/]+\.rs)`", line)
            if m:
                return m.group(1)
    demo = open(os.path.join(SEEDED, i, "demo.rs")).read() if os.path.exists(os.path.join(SEEDED, i, "demo.rs")) else ""
    m = re.search(r"append[^\n]*?(src/[\w/]+\.rs)", demo, re.I)
    return m.group(1) if m else "src/chess/mod.rs"


def run_demo(wt, i):
    tgt = os.path.join(wt, demo_target(i))
    orig = open(tgt).read()
    open(tgt, "w").write(orig + "\n" + open(os.path.join(SEEDED, i, "demo.rs")).read())
    try:
        rc, out = sh("cargo test --offline seed_demo 2>&1 | tail -30", cwd=wt, timeout=1800)
        m = re.search(r"test result: (\w+)\. (\d+) passed; (\d+) failed", out)
        return (m.group(1), int(m.group(2)), int(m.group(3))) if m else ("?", 0, 0), out[-1500:]
    finally:
        open(tgt, "w").write(orig)


def cmd_import(src, i):
    d = os.path.join(SEEDED, i)
    os.makedirs(d, exist_ok=True)
    for f in ("patch.diff", "demo.rs", "notes.md"):
        if os.path.exists(os.path.join(src, f)):
            shutil.copy(os.path.join(src, f), os.path.join(d, f))
    m = load_meta(i)
    m.update({"id": i, "breaks_property": re.match(r"(C\d\d)", i).group(1), "origin": "independent sub-agent given only the property text and a scratch worktree",
              "demo_appended_to": demo_target(i)})
    notes = open(os.path.join(d, "notes.md")).read() if os.path.exists(os.path.join(d, "notes.md")) else ""
    mm = re.search(r"(?is)##\s*What it needs[^\n]*\n(.*?)(?:\n##|\Z)", notes)
    if mm:
        m["needs_to_manifest"] = " ".join(mm.group(1).split())[:900]
    save_meta(i, m)
    print("imported", i)


def cmd_confirm(i):
    m = load_meta(i)
    wt = worktree()
    try:
        res0, out0 = run_demo(wt, i)
        rc, out = sh(["git", "-C", wt, "apply", os.path.join(SEEDED, i, "patch.diff")])
        applied = rc == 0
        rcb, outb = sh("cargo build --offline 2>&1 | tail -3", cwd=wt, timeout=1800)
        builds = "Finished" in outb
        res1, out1 = run_demo(wt, i)
        skip = " ".join(f"--skip {s}" for s in SKIP)
        rct, outt = sh(f"cargo test --offline -- {skip} 2>&1 | tail -60", cwd=wt, timeout=3600)
        mt = re.search(r"test result: \w+\. (\d+) passed; (\d+) failed", outt)
        failed = re.findall(r"^test (\S+) \.\.\. FAILED", outt, re.M)
        m["confirmed"] = {
            "patch_applies": applied, "builds": builds,
            "demo_without_change": {"result": res0[0], "passed": res0[1], "failed": res0[2]},
            "demo_with_change": {"result": res1[0], "passed": res1[1], "failed": res1[2]},
            "suite_with_change": {"passed": int(mt.group(1)) if mt else None, "failed": int(mt.group(2)) if mt else None, "failed_tests": failed,
                                  "note": "chess::tests::fen_startpos fails on the unchanged tree too (BASELINE always_fail); 3 slow perft tests skipped"},
            "commands": ["git worktree add (scratch)", "cargo test --offline seed_demo  (demo appended; without, then with the patch)",
                         "git apply patch.diff", "cargo build --offline", f"cargo test --offline -- {skip}"],
            "ok": bool(applied and builds and res0[0] == "ok" and res1[2] >= 1 and mt and int(mt.group(1)) >= 42 and set(failed) <= {"chess::tests::fen_startpos"}),
            "at": time.strftime("%Y-%m-%dT%H:%M:%S"),
        }
        save_meta(i, m)
        print(i, "confirmed" if m["confirmed"]["ok"] else "NOT CONFIRMED", json.dumps(m["confirmed"])[:400])
    finally:
        drop(wt)


def cmd_check(i, props):
    m = load_meta(i)
    wt = worktree()
    try:
        rc, out = sh(["git", "-C", wt, "apply", os.path.join(SEEDED, i, "patch.diff")])
        if rc != 0:
            print("patch does not apply", out)
            return
        env = dict(os.environ)
        env["VERIF_REPO"] = wt
        det = m.setdefault("checks", {})
        for p in props:
            t0 = time.time()
            rc, out = sh([os.path.join(VERIF, "verify"), "check", p], cwd=VERIF, timeout=7200, env=env)
            lines = [l for l in out.splitlines() if l.startswith(("VIOLATION", "UNDECIDED", "KNOWN-FINDING"))]
            replays = [l for l in out.splitlines() if l.startswith("[replay]")]
            det[p] = {"exit": rc, "lines": lines[:12], "native_replays": replays[:8], "wall_s": round(time.time() - t0)}
            print(i, p, "exit", rc, lines[:3])
            save_meta(i, m)
    finally:
        drop(wt)


def cmd_table():
    rows = []
    for i in sorted(os.listdir(SEEDED)):
        if not os.path.isdir(os.path.join(SEEDED, i)):
            continue
        m = load_meta(i)
        conf = m.get("confirmed", {})
        checks = m.get("checks", {})
        det = []
        for p, r in sorted(checks.items()):
            obs = sorted(set(re.sub(r".*replay=\S*/%s-(.*?)\.json.*" % p, r"\1", l) for l in r.get("lines", []) if l.startswith("VIOLATION")))
            nat = "native replay confirmed" if any("confirmed-natively" in x for x in r.get("native_replays", [])) else ""
            und = [l for l in r.get("lines", []) if l.startswith("UNDECIDED")]
            det.append(f"`{p}` exit {r.get('exit')}" + (": " + ", ".join(obs) if obs else "") + (f" ({nat})" if nat else "") + (f"; {len(und)} undecided" if und else ""))
        notes = open(os.path.join(SEEDED, i, "notes.md")).read() if os.path.exists(os.path.join(SEEDED, i, "notes.md")) else ""
        title = next((l.lstrip("# ").strip() for l in notes.splitlines() if l.startswith("#")), "")
        rows.append(f"| {i} | {title[:110]} | {'yes' if conf.get('ok') else 'NO' if conf else '-'} | {'<br>'.join(det) if det else 'not run yet'} |")
    out = ["# Seeded defects", "",
           "Each seed: `patch.diff` (never applied to /repo itself), `demo.rs` (fails with / passes without the change), `notes.md` (the sub-agent's report), `meta.json` (what was confirmed and run here).",
           "", "| id | change | confirmed here | checks run against it (exit 1 = VIOLATION reported, 0 = missed, 2 = undecided) |", "|---|---|---|---|"] + rows
    open(os.path.join(SEEDED, "README.md"), "w").write("\n".join(out) + "\n")
    print("\n".join(out))


def cmd_benign(i, props):
    """run checks against a behaviour-preserving refactoring (seeded/benign/<id>): none may print a VIOLATION"""
    d = os.path.join(SEEDED, "benign", i)
    wt = worktree()
    try:
        rc, out = sh(["git", "-C", wt, "apply", os.path.join(d, "patch.diff")])
        if rc != 0:
            print("patch does not apply", out)
            return
        rcb, outb = sh("cargo build --offline 2>&1 | tail -3", cwd=wt, timeout=1800)
        env = dict(os.environ)
        env["VERIF_REPO"] = wt
        mp = os.path.join(d, "meta.json")
        m = json.load(open(mp)) if os.path.exists(mp) else {"id": i, "kind": "benign refactoring (false-alarm guard)", "builds": "Finished" in outb}
        det = m.setdefault("checks", {})
        for p in props:
            t0 = time.time()
            rc, out = sh([os.path.join(VERIF, "verify"), "check", p], cwd=VERIF, timeout=7200, env=env)
            lines = [l for l in out.splitlines() if l.startswith(("VIOLATION", "UNDECIDED", "KNOWN-FINDING"))]
            det[p] = {"exit": rc, "lines": lines[:12], "false_alarm": any(l.startswith("VIOLATION") for l in lines), "wall_s": round(time.time() - t0)}
            print(i, p, "exit", rc, lines[:3])
            json.dump(m, open(mp, "w"), indent=1)
    finally:
        drop(wt)


if __name__ == "__main__":
    c = sys.argv[1]
    if c == "benign":
        cmd_benign(sys.argv[2], sys.argv[3:])
        sys.exit(0)
    if c == "table":
        cmd_table()
        sys.exit(0)
    if c == "import":
        cmd_import(sys.argv[2], sys.argv[3])
    elif c == "confirm":
        cmd_confirm(sys.argv[2])
    elif c == "check":
        cmd_check(sys.argv[2], sys.argv[3:])
