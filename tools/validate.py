#!/usr/bin/env python3-vt
"""dev helper: validate MANIFEST.json and evidence/*.json against the schemas (needs jsonschema -> python3-vt)"""
import json, glob, sys, jsonschema
ok = True
m = json.load(open('/verif/MANIFEST.json'))
jsonschema.validate(m, json.load(open('/root/.vp/MANIFEST.schema.json')))
es = json.load(open('/root/.vp/EVIDENCE.schema.json'))
for f in sorted(glob.glob('/verif/evidence/*.json')):
    try:
        d = json.load(open(f)); jsonschema.validate(d, es)
        c = d['coverage']
        print(f, 'ok', d['level'], 'obl', c.get('obligations'), 'dis', c.get('discharged'), 'viol', d.get('violations'))
    except Exception as e:
        ok = False; print(f, 'INVALID', str(e)[:300])
props = [json.loads(l)['id'] for l in open('/verif/properties.jsonl')]
claimed = [c['property_id'] for c in m['checks']]; na = [n['property_id'] for n in m.get('not_applicable', [])]
for p in props:
    if (p in claimed) == (p in na):
        ok = False; print('property', p, 'must be exactly one of claimed / not_applicable')
print('manifest ok; claimed', claimed)
sys.exit(0 if ok else 1)
