"""run_native.py -- obligations of backend "native": a concrete test compiled natively from the generated
tree (same binary as the replay shim).  Reported as a TEST, never counted under `discharged` of a proof."""
import kani_run


def run(o, scratch, log):
    r = kani_run.native_replay(scratch, o["harness"], [], log)
    detail = {"n_checks": 1, "solver_s": 0.0, "wall_s": None, "cmd": f"native test {o['harness']}"}
    if r["outcome"] == "not-reproduced-natively":      # i.e. the test passed
        log(f"[native] {o['harness']}: passed")
        return "discharged", detail, r["output"]
    if r["outcome"] == "confirmed-natively":
        detail["failed"] = [{"name": o["harness"], "desc": r.get("panic") or "native test failed", "loc": ""}]
        log(f"[native] {o['harness']}: FAILED {r.get('panic')}")
        return "violated", detail, r["output"]
    detail["reason"] = r["outcome"]
    return "undecided", detail, r["output"]
