"""obligations.py -- the table: which obligations decide which property, at which tier.

An obligation unit is one Kani harness (possibly one of N instances of a per-square family), one
Verus run, or one SMT query.  `complete: True` means the harness quantifies over the full symbolic
domain with constant loop bounds and unwinding assertions on (DESIGN.md 1.3); anything else carries
`complete: False` + `bounded_note` and `counts_as_proof: False`.
"""
import random

COMMON_TRUSTED = [
    "rustc (Kani's pinned nightly) + Kani 0.68 MIR->goto translation + CBMC 6.11 + CaDiCaL",
    "Kani's models of std (allocation never fails)",
    "/verif/contracts/spec.rs: the hand-written statement of the rules / renderings the properties refer to",
    "tools/gen_tree.py + tools/slices.py: byte copy of /repo's working tree, only appends text",
]

PROPS = {}
OBS = []


def prop(pid, **kw):
    kw.setdefault("slices", [])
    kw.setdefault("assumptions", [])
    kw.setdefault("trusted_base", COMMON_TRUSTED)
    kw.setdefault("not_machine_checked", [])
    PROPS[pid] = kw


def ob(name, harness, props, statement, functions, tier="quick", timeout=300, mem_est_gb=3.0, mem_gb=16,
       complete=True, bounded_note=None, backend="kani", instances=None, quick_instances=None, **kw):
    """instances: list of strings substituted for {i} in name/harness (a per-square family)."""
    d = dict(name=name, harness=harness, props=props, statement=statement, functions=functions, tier=tier,
             timeout=timeout, mem_est_gb=mem_est_gb, mem_gb=mem_gb, complete=complete, bounded_note=bounded_note,
             backend=backend, instances=instances, quick_instances=quick_instances)
    d["counts_as_proof"] = kw.pop("counts_as_proof", complete)
    d.update(kw)
    OBS.append(d)


SQ = ["%02d" % i for i in range(64)]


def select(pid, tier, seed):
    """-> (list of concrete obligation units for this run, total number of units over all tiers)"""
    rng = random.Random(seed)
    out, total = [], 0
    for o in OBS:
        if pid not in o["props"]:
            continue
        inst = o["instances"]
        if inst is None:
            total += 1
            if o["tier"] == "quick" or tier == "thorough":
                out.append(dict(o))
            continue
        total += len(inst)
        if o["tier"] == "thorough" and tier == "quick":
            continue
        chosen = list(inst)
        if tier == "quick" and o["quick_instances"] is not None and o["quick_instances"] < len(inst):
            fixed = [i for i in o.get("quick_fixed", []) if i in inst]
            rest = [i for i in inst if i not in fixed]
            rng.shuffle(rest)
            chosen = sorted(fixed + rest[: max(0, o["quick_instances"] - len(fixed))])
        for i in chosen:
            c = dict(o)
            c["name"] = o["name"].replace("{i}", i)
            c["harness"] = o["harness"].replace("{i}", i)
            c["instance"] = i
            if len(chosen) < len(inst):
                c["subset_note"] = f"quick tier ran {len(chosen)} of {len(inst)} instances (seeded)"
            out.append(c)
    return out, total


def run_other(o, scratch, log):
    if o["backend"] == "smt":
        import run_smt
        return run_smt.run(o, scratch, log)
    if o["backend"] == "verus":
        import run_verus
        return run_verus.run(o, scratch, log)
    if o["backend"] == "native":
        import run_native
        return run_native.run(o, scratch, log)
    raise ValueError(o["backend"])


# =================================================================================================
# C13 -- thinking time never exceeds the time available
# =================================================================================================
prop("C13",
     level="proof",
     slices=["verif_budget", "verif_timer_block"],
     explanation="Contract of the time-budget arithmetic of uci::command_go, cut verbatim as slice verif_budget: for all "
                 "u64 clocks/increments/movetime and either side, no overflow/underflow and budget <= the mover's remaining "
                 "clock (clock mode) resp. <= movetime. Kani decides it bit-precisely for clocks <= 2^53 ms; the float term for "
                 "larger clocks is an SMT lemma. std::time::Duration arithmetic is an assumed dependency contract (stubbed by an "
                 "order-embedding), because 64-bit division circuits make the real Duration code intractable for SAT. The "
                 "timer block that enforces the budget (armed whenever a budget exists and the search is not infinite, depth limit or not) is cut "
                 "as slice verif_timer_block and exercised by a native test with real threads (Kani cannot compile it). The 'announced within the "
                 "budget' half beyond that depends on thread scheduling and on C07 and is not decided.",
     assumptions=[
         "Duration::from_millis is an order embedding of u64 milliseconds and Duration::saturating_sub subtracts exactly on "
         "whole-millisecond values (std contract, stubbed under Kani; the native replay uses the real std code)",
         "the timer thread sleeps exactly the Duration computed by the slice (thread::sleep contract; scheduling not modelled)",
         "all four of wtime/btime/winc/binc present, as in the property's quantifier",
         "SMT lemma: hand encoding of Rust's `u64 as f64` (round-to-nearest-even) and `f64 as u64` (truncating, saturating)",
     ],
     not_machine_checked=["argument parsing of `go`", "that bestmove is printed before the budget elapses (scheduling, C07)"])

_F13 = ["uci::command_go (slice verif_budget: budget arithmetic)"]
ob("c13_budget_clock_mode", "uci::verif_uci::c13_budget_clock_mode", ["C13"],
   "forall wtime,btime<=2^53, winc,binc: u64, side: no overflow panic and budget <= mover's clock", _F13, timeout=300)
ob("c13_budget_movetime_mode", "uci::verif_uci::c13_budget_movetime_mode", ["C13"],
   "forall movetime: u64: budget <= movetime", _F13, timeout=120)
ob("c13_budget_movetime_with_clocks", "uci::verif_uci::c13_budget_movetime_with_clocks", ["C13"],
   "forall clocks and movetime: movetime takes precedence, budget <= movetime, no overflow panic", _F13, timeout=300)

# =================================================================================================
NOT_APPLICABLE = {
    "C06": "legality of the announced move for every table history needs an invariant over the recursive search and the shared HashMap; "
           "outside Kani's and Verus' reach on the real code (HashMap with symbolic keys: no result; recursion over a game tree)",
    "C07": "stop-flag timing is a property of the recursive search driver plus threads; a contract check of the real driver was tried and is out of reach (DESIGN.md section 5)",
    "C08": "termination of the iterative-deepening driver for every table content: driver clones the Game through the FEN reader and walks a HashMap, both beyond CBMC here (DESIGN.md section 5)",
    "C09": "equality of the pruned search with plain negamax is an induction over the game tree relating two recursions; no function-local contract within reach expresses it",
    "C10": "needs completeness of the search for mates within the horizon: whole-recursion property plus an independent solver",
    "C14": "concurrency (three threads, atomics, a mutex, stdout ordering): Kani has no thread support; Verus only for code written with its permission types",
    "C18": "validity of the reconstructed PV is the same table-history invariant as C06",
    "C19": "run-to-run reproducibility (timing, memory layout, iteration order) is not a functional contract a deductive verifier can observe",
}

# =================================================================================================
# C20 -- the move record shows what was played
# =================================================================================================
prop("C20",
     level="proof",
     explanation="Contract of Move::pgn_notation against spec::record_text for every move value of every kind (piece letter, origin "
                 "file, x iff capture, destination, =Q/R/B/N, O-O, O-O-O), fully symbolic fields; Game::get_pgn's numbering loop body as "
                 "a slice; Piece::as_char distinct glyph per piece; the FEN writer slices decide the `Fen:` line. The diagram cell expression of Display "
                 "(slice verif_display_cell) shows the content of square (i, j) for every board; the write! calls through core::fmt and the two loop "
                 "headers (rank 8 first, files a..h) are glue: exercised by a native test, not machine-checked.",
     assumptions=["String/core::fmt code of std is verified along the executed paths only (Kani's std models)",
                  "the Hash:/Fen:/PGN: lines of Display print self.hash, self.fen(), self.get_pgn() (read; C04, C11 cover those values)"],
     not_machine_checked=["Display for Game: diagram loop headers (row/column order) and the write! plumbing -- native test only", "get_pgn loop header / collect() -- native test only"])
_F20 = ["Move::pgn_notation", "Piece::as_str_pgn"]
for _n, _st in [("normal_pawn_quiet", "pawn push"), ("normal_pawn_capture", "pawn capture"), ("normal_piece_quiet", "piece move"),
                ("normal_piece_capture", "piece capture")]:
    ob("c20_record_" + _n, "chess::move_struct::verif_move::c20_record_" + _n, ["C20"],
       f"forall piece, start != end, captured ({_st} case of a 4-way partition): pgn_notation(Normal) == [letter] origin-file [x] destination",
       _F20, timeout=1800)
for _n in ["quiet", "capture"]:
    ob("c20_record_promotion_" + _n, "chess::move_struct::verif_move::c20_record_promotion_" + _n, ["C20"],
       f"forall owner, new_piece in QRBN, start, end, captured ({_n} case): pgn_notation(Promotion) == origin-file [x] destination = piece",
       _F20, timeout=1800)
ob("c20_record_castling_short", "chess::move_struct::verif_move::c20_record_castling_short", ["C20"], "O-O for either owner", _F20, timeout=900)
ob("c20_record_castling_long", "chess::move_struct::verif_move::c20_record_castling_long", ["C20"], "O-O-O for either owner", _F20, timeout=900)
ob("c20_record_enpassant", "chess::move_struct::verif_move::c20_record_enpassant", ["C20"],
   "e.p. as origin-file x destination-file rank(6|3) for every owner / file pair", _F20, timeout=1500)

# =================================================================================================
# C02 -- playing a move produces the prescribed position
# =================================================================================================
_FPUSH = ["Game::push", "Game::set_position", "Game::set_king_position", "Game::state", "Game::get_position",
          "GameState::set_en_passant", "GameState::set_*_castling_false", "GameState::hash", "Piece::score", "Piece::hash",
          "Position::new_assert", "Position::as_usize"]
prop("C02",
     level="proof",
     explanation="Contract of Game::push per move kind against spec::apply (the successor the rules prescribe): for every symbolic "
                 "board, state byte, side and every move value satisfying the weakest shape precondition (implied by membership in the "
                 "generated list + WF), the successor view equals spec::apply at an arbitrary square, side, each castling right, and the "
                 "e.p. file (set iff a double push lands beside an enemy pawn); one state entry is added and earlier entries are untouched; "
                 "king cache preserved. WF6 (right => king and rook at home) preservation is a separate obligation. 'Sequences of any length' "
                 "is the induction over WF (DESIGN.md 3.3).",
     assumptions=["state stack depth instantiated at 2 (arrayvec push_unchecked/last are length-generic library code)",
                  "score bound |score| <= 10700 from the material bound (lemma score_tables_bounded + paper step, DESIGN.md 3.3)"])
for _k in ["normal", "promotion", "enpassant", "castling_short", "castling_long"]:
    ob("push_contract_" + _k, "chess::verif_chess::push_contract_" + _k, ["C02"],
       f"forall game, {_k} move with shape pre + WF6: view(push(g,m)) == spec::apply(view(g), m); len+1; earlier entries kept; king cache kept",
       _FPUSH, timeout=900)

# =================================================================================================
# C03 -- take-back restores everything; queries change nothing
# =================================================================================================
prop("C03",
     level="proof",
     explanation="Contract pop(push(g,m),m) == g on every field (board, cached keys/scores, hash, score, king cache, side, stack length and "
                 "entries, evaluation tables) for every symbolic game satisfying WF locally and every move of generated shape, including "
                 "unchecked moves that capture a king; update_phase preserves WF2s (the cached scores stay consistent with the tables in "
                 "force), so the precondition holds for games loaded in any phase; the legality filter of get_moves pairs every push "
                 "with a pop of the same move (slice obligation shared with C01); &self queries cannot write (Rust's type system; the "
                 "only interior mutability, piece_scores, is asserted unchanged). Nested play/take-back: induction on the same contract.",
     assumptions=["state stack depth instantiated at 2", "score bound from the material bound (lemma score_tables_bounded)",
                  "search code calls push/pop in matched pairs (read, A5)"])
for _k in ["normal", "promotion", "enpassant", "castling_short", "castling_long"]:
    ob("roundtrip_" + _k, "chess::verif_chess::roundtrip_" + _k, ["C03"],
       f"forall game (WF locally), {_k} move of generated shape incl. king captures: pop(push(g,m),m) == g on all fields",
       _FPUSH + ["Game::pop"], timeout=1800)

_FSET = ["Game::set_position", "Piece::score", "Piece::hash", "Piece::as_index", "Position::as_usize", "Position::new_unsafe"]
ob("set_position_contract", "chess::verif_chess::set_position_contract", ["C02", "C03", "C04", "C15", "C16"],
   "forall game, square p, content: board/cached key/cached score at p become new/key(p,new)/sq_score(p,new); hash and score move by (old cached) -> (new); frame",
   _FSET, timeout=1500)
for _k in ["normal", "promotion"]:
    for _part, _txt in [("board", "board at any square, king cache, side, stack length and entries, tables"),
                        ("keys", "cached square key at any square"), ("scores", "cached square score at any square")]:
        ob(f"roundtrip_{_k}_{_part}", f"chess::verif_chess::roundtrip_{_k}_{_part}", ["C03"],
           f"forall game (WF locally), {_k} move of generated shape incl. king captures: pop(push(g,m),m) restores {_txt}",
           _FPUSH + ["Game::pop"], timeout=1200)
    ob(f"roundtrip_{_k}_score", f"chess::verif_chess::roundtrip_{_k}_score", ["C03"],
       f"{_k}: pop(push(g,m),m) restores the score (direct, set_position inlined)", _FPUSH + ["Game::pop"], tier="thorough", timeout=2400)
ob("roundtrip_promotion_hash", "chess::verif_chess::roundtrip_promotion_hash", ["C03"],
   "promotion: pop(push(g,m),m) restores the hash (direct, set_position inlined)", _FPUSH + ["Game::pop"], tier="thorough", timeout=2400)
# redefine the three cheap kinds registered above (full conjunction in one harness)
OBS[:] = [o for o in OBS if o["name"] not in ("roundtrip_normal", "roundtrip_promotion")]
for _k in ["normal", "promotion", "enpassant", "castling_short", "castling_long"]:
    ob("delta_" + _k, "chess::verif_chess::delta_" + _k, ["C03", "C04", "C16"],
       f"{_k}: with set_position replaced by its contract's board effect, push changes hash by side key ^ old state key ^ new state key only, "
       "pop undoes it, neither touches score or caches (=> WF3/WF4 preserved, hash/score restored)",
       ["Game::push", "Game::pop", "GameState::hash"], timeout=600)
ob("update_phase_contract", "chess::verif_chess::update_phase_contract", ["C03", "C16"],
   "forall game (WF1, WF2 at kings and any j), any is_endgame answer: cached scores consistent with the tables in force afterwards; score == SUM preserved; position/hash untouched",
   ["Game::update_phase"], timeout=1800, witness="chess::verif_chess::witness_d1_endgame_score_drift")
ob("piece_score_is_table_value", "chess::piece::verif_piece::piece_score_is_table_value", ["C16", "C15"],
   "Piece::score == spec sq_score for 12 pieces x 64 squares x 2 king tables; unchecked read in bounds", ["Piece::score", "Position::new_unsafe"], timeout=300)
ob("piece_score_mirror_negates", "chess::piece::verif_piece::piece_score_mirror_negates", ["C16"],
   "score(mirror piece, mirror square) == -score(piece, square)", ["Piece::score"], timeout=300)
ob("score_tables_bounded", "chess::verif_chess::score_tables_bounded", ["C16", "C03", "C02"],
   "table facts behind the i16 bound: promoted pawn <= queen; king spread + 9Q+2R+2B+2N <= SCORE_BOUND; SCORE_BOUND + Q + K <= 32767", ["scores.rs tables"], timeout=300)
ob("piece_hash_is_published_key", "chess::piece::verif_piece::piece_hash_is_published_key", ["C04", "C15"],
   "Piece::as_index/hash == key at offset 259+8*(12*sq+piece) for all 12 x 64; unchecked reads in bounds", ["Piece::hash", "Piece::as_index"], timeout=300)
ob("gs_hash_is_published_key", "chess::gamestate::verif_gamestate::gs_hash_is_published_key", ["C04", "C15"],
   "GameState::hash == key at offset 2+8*bits for all 256 bitfields; unchecked read in bounds", ["GameState::hash"], timeout=120)
for _h in ["gs_accessors_and_setters", "gs_set_en_passant_in_range", "gs_default_is_no_rights_no_ep"]:
    ob(_h, "chess::gamestate::verif_gamestate::" + _h, ["C02", "C04", "C15"],
       "GameState bit layout: accessors read / setters write exactly their bit; set_en_passant(0..=8) keeps the castling nibble", ["GameState::*"], timeout=120)

prop("C16",
     level="proof",
     explanation="score == SUM of piece-square values, as a representation invariant: Piece::score equals the specified table value on the "
                 "full domain (and the mirrored piece the negated value); set_position's contract keeps cached value and running score in "
                 "step (WF2s, WF4 locally, with frame); push/pop touch the score only through set_position (modular step); update_phase "
                 "re-scores so that every cached value is consistent with the tables in force, i.e. both kings by the same table; i16 "
                 "overflow excluded by the material bound lemma. Hence the score is a function of position and phase, not of the route.",
     assumptions=["paper step: a sum of at most (1 king + 15 others) per side is bounded by the per-kind maxima (lemma score_tables_bounded gives the table facts)",
                  "Game::new establishes WF2s/WF4 square by square (C17 scanner-step slice); the loop around it is glue"])

ob("keys_tables_match_published_layout", "chess::verif_chess::keys_tables_match_published_layout", ["C04", "C05"],
   "zobrist::{BLACK_TO_MOVE,EMPTY_PLACE,STATE[256],PIECE[64][12]} == little-endian u64 of zobrist_bytes.bin at offsets 0, 1, 2+8i, 259+8(12 sq+p)",
   ["zobrist::get_random_nums", "zobrist consts"], timeout=1500)
ob("spec_start_position_hash", "chess::verif_chess::spec_start_position_hash", ["C04"],
   "published keys of the start position combine to D9C54592621D7040", ["spec::hash_of"], timeout=300)
ob("c05_square_keys_distinct", "chess::verif_chess::c05_square_keys_distinct", ["C05"],
   "forall square, contents a != b (12 pieces + empty): the square's key differs", ["Piece::hash", "zobrist::EMPTY_PLACE"], timeout=600)
ob("c05_state_and_side_keys_distinct", "chess::verif_chess::c05_state_and_side_keys_distinct", ["C05"],
   "side key != 0; forall state bytes a != b with e.p. nibble <= 8: GameState::hash differs", ["GameState::hash", "zobrist::BLACK_TO_MOVE"], timeout=600)
ob("native_start_hash_and_pairwise_xor", "chess::verif_chess::native_start_hash_and_pairwise_xor", ["C04", "C05"],
   "TEST (native, concrete): Game::default().hash() == D9C54592621D7040; all 525825 pairwise XORs of the 1026 keys are distinct",
   ["Game::new (whole function, concrete input)"], backend="native", complete=False, counts_as_proof=False,
   bounded_note="concrete native run; whole Game::new is beyond CBMC")

prop("C04",
     level="proof",
     explanation="hash(g) == XOR of published keys of view(g), as representation invariant WF2h+WF3: engine key constants equal the key-file "
                 "entries at the published offsets (1026 equalities); Piece::hash / GameState::hash equal the published key on their full "
                 "domains; set_position keeps (hash, cached key) in step with frame; push/pop touch the hash outside set_position only by side "
                 "key and old/new state key (modular step against set_position's contract); so the invariant is preserved by every move and "
                 "take-back and the hash is a function of the position alone, whatever the route. Start position == D9C54592621D7040 on the "
                 "spec side (Kani) and on the real Game::default() (native test). Importer: scanner-step slice (C17) establishes the invariant.",
     assumptions=["Game::new's loops around the scanner step and field parsers are glue (C17); the native start-position run is a test",
                  "composition of the per-function contracts into `hash == spec hash of view` is the short argument of DESIGN.md section 4 (C04)"])
prop("C05",
     level="proof",
     explanation="Given C04 (hash = XOR of per-feature keys), changing one feature changes the hash by key(sq,a)^key(sq,b), the side key, or "
                 "state_key(s)^state_key(s'): proved non-zero for every square and content pair, the side key, and every pair of state bytes "
                 "with a legal e.p. nibble. Two-feature differences: native exhaustive test over all pairwise XORs. Collision freedom among "
                 "millions of explored positions is a statistical statement about a 64-bit hash and is NOT decided by any contract.",
     assumptions=["C04's invariant", "collision freedom over explored sets is not claimed (only single-feature, and two-feature by native test)"],
     not_machine_checked=["no collision among all positions explored by a search (statistical, not a contract)"])
PROPS["C03"]["assumptions"].append("direct hash/score round trip for Normal/Promotion moves is also run with set_position inlined in the thorough tier where it fits (promotion: yes; normal hash: no result in 30 min)")

# =================================================================================================
# C01 -- generated moves are exactly the legal moves
# =================================================================================================
prop("C01",
     level="proof",
     technique="Kani/CBMC contract harnesses on the real code: per-square instances for attack detection and per-piece generation, "
               "verbatim slices of get_moves against abstract callees, rules-only lemmas; native differential test for the residual glue",
     explanation="Game::get_moves under contract, each obligation for a fully symbolic board/state: is_targeted == the independent attack "
                 "relation (one instance per queried square, 64); Piece::get_moves for each piece kind on each square emits exactly the "
                 "geometrically valid moves of that piece (sound, complete, no repeats; castling against the is_targeted oracle, asking "
                 "e,f,g / e,d,c for the mover); prologue (list emptied, king-missing exit), the generation loops as a whole block (called "
                 "exactly for own pieces), the legality-filter step (push; is_targeted(king after push); pop; keep iff safe; not-in-check "
                 "shortcut) and the filter block on three candidates (compaction, truncate); whole get_moves against abstract callees leaves "
                 "the game untouched; shortcut lemma, king-capture lemma and e.p. invariant proved from the rules alone; push contracts give "
                 "the preservation of WF that the precondition rests on. Quick tier: all 64 instances of is_targeted and of the lemmas, a "
                 "seeded subset of squares per generator family (exhaustive: false); thorough: all squares.",
     slices=["verif_get_moves_prologue", "verif_gen_body", "verif_gen_block", "verif_filter_body", "verif_filter_block"],
     assumptions=["WF (one king each, king cache, WF6, WF7) as precondition; established by import (C17) and preserved by push (push_contract_*, spec_apply_preserves_wf_*)",
                  "composition of the component contracts into `list == legal moves` is the argument of DESIGN.md section 4 (C01)",
                  "the 256-slot move buffer is never exceeded (A6: legal positions have < 256 pseudo-legal moves)",
                  "filter_block is bounded in the list length (3): compaction beyond that is covered by the per-step contract plus the native differential test"],
     not_machine_checked=["the closure that pushes generated moves into the 256-slot buffer (three lines)", "keep_index compaction for lists longer than three (bounded stand-in + native test)"])
_FGEN = ["Piece::get_moves", "Piece::get_pawn_moves", "Piece::get_king_moves", "Piece::get_knight_moves", "Position::add", "Position::add_unsafe",
         "Game::get_position", "Game::state", "GameState::en_passant", "GameState::*_castling"]
ob("is_targeted_{i}", "chess::verif_chess::inst::is_targeted::sq{i}", ["C01"],
   "forall board, player: is_targeted(sq, player) == spec::attacked(board, sq, other player)", ["Game::is_targeted", "Position::add", "Game::get_position"],
   instances=SQ, timeout=600, mem_est_gb=3)
for _o in OBS:
    if _o["name"] in ("push_contract_normal", "roundtrip_castling_short", "roundtrip_enpassant"):
        _o["props"] = _o["props"] + ["C15"]      # arrayvec push_unchecked / truncate / last().unwrap_unchecked debug assertions and pointer checks
for _fam, _txt, _n in [("gen_rook", "rook", 12), ("gen_bishop", "bishop", 12), ("gen_queen", "queen", 12), ("gen_knight", "knight", 12),
                       ("gen_pawn", "pawn (incl. double push, promotions, e.p.)", 14), ("gen_king", "king (steps, both castlings vs is_targeted oracle)", 14)]:
    ob(_fam + "_{i}", f"chess::verif_chess::inst::{_fam}::sq{{i}}", ["C01"],
       f"forall board/state with a {_txt} of the side to move on sq: generated == geometrically valid moves (sound, complete, no repeats)",
       _FGEN, instances=SQ, quick_instances=_n, quick_fixed=["00", "07", "56", "63", "04", "60", "12", "52", "24", "31", "27", "36"][: _n - 2], timeout=900, mem_est_gb=3,
       complete=True)
ob("shortcut_lemma_{i}", "chess::verif_chess::inst::shortcut_lemma::sq{i}", ["C01"],
   "rules only: king on sq not attacked, pseudo-legal non-king Normal move from a non-aligned square => king still not attacked",
   ["spec (lemma used by the filter's shortcut)"], instances=SQ, timeout=600)
ob("gen_body", "chess::verif_chess::inst::gen_body", ["C01"],
   "slice verif_gen_body vs Piece::get_moves recorder: called exactly once with (piece on sq, sq) iff an own piece stands on sq", ["Game::get_moves (generation loop body)"], timeout=300)
ob("filter_body", "chess::verif_chess::inst::filter_body", ["C01", "C03"],
   "slice verif_filter_body vs abstract push/is_targeted/pop: shortcut => kept w/o calls; else push(m); is_targeted(king after push, mover); pop(m); kept iff safe",
   ["Game::get_moves (legality filter loop body)"], timeout=600)
ob("native_get_moves_matches_spec", "chess::verif_chess::moves::native_get_moves_matches_spec", ["C01", "C02"],
   "TEST (native, concrete): whole get_moves(true/false) vs spec::legal, successor vs spec::apply, on the six perft roots to depth 2",
   ["Game::get_moves (whole function, concrete inputs)"], backend="native", complete=False, counts_as_proof=False,
   bounded_note="concrete native run of the glue; not a proof")

# =================================================================================================
# C15 -- unchecked fast paths stay within bounds
# =================================================================================================
prop("C15",
     level="proof",
     slices=["verif_autoplay_tail", "verif_position_step"],
     explanation="Every unsafe site gets its safety precondition as a contract, and Kani's own checks (pointer validity / bounds of "
                 "get_unchecked, arrayvec's and Position's debug assertions) are obligations: Position invariant row,col in 0..8 (Verus on the "
                 "extracted position.rs functions + Kani on the full i8 domain) => every board/cache index < 64 (set_position contract with its "
                 "pointer checks); Piece::score / Piece::hash / GameState::hash table reads in bounds on their full domains; set_en_passant keeps "
                 "the bitfield for the values its call sites pass; the per-ply state stack: push needs len <= 511 -- the self-play loop tail "
                 "(slice) and the `position` step (slice, guard at 400) are checked against that precondition. The 256-entry move buffer and the "
                 "search depth bound rest on stated assumptions (A5, A6), not on proof.",
     assumptions=["A6: positions reachable by legal play have fewer than 256 pseudo-legal moves (literature: 218 legal); imported fantasy positions with many queens are NOT covered",
                  "A5: search depth + capture extension keeps the state stack below 512 for games the interface accepted (<= 400 entries); not proved (search layer out of reach)",
                  "inside dependencies (arrayvec, anyhow, std) unsafe code is checked by Kani along executed paths only"],
     not_machine_checked=["the 256-entry move buffer bound (A6)", "state-stack growth inside the recursive search (A5)"])
ob("verus_position", None, ["C15"],
   "Verus (unbounded integers, i8 overflow obligations) on the verbatim text of Position::{new,add,as_usize,row,col}: results valid, as_usize < 64",
   ["Position::new", "Position::add", "Position::as_usize", "Position::row", "Position::col"], backend="verus", timeout=300)
for _h, _st in [("position_new_contract", "Position::new is Some exactly on board, all i8 x i8"),
                ("position_add_contract", "Position::add from a valid square with any non-overflowing delta: Some exactly on board, result valid"),
                ("position_as_usize_contract", "as_usize == row*8+col < 64 on valid positions"), ("position_consts", "rook-home constants are a1 h1 a8 h8")]:
    ob(_h, "chess::position::verif_position::" + _h, ["C15", "C01"], _st, ["Position::*"], timeout=120)
ob("autoplay_tail_respects_stack_capacity", "uci::verif_uci::autoplay_tail_respects_stack_capacity", ["C15"],
   "slice verif_autoplay_tail vs abstract search / push_history: for a self-play game of any length 1..=512, push_history is reached only with <= 511 state entries",
   ["autoplay::autoplay (loop tail)"], timeout=300, witness="uci::verif_uci::witness_d5_512_plies_overflow_state_stack")

# =================================================================================================
# C12 -- move text round-trips; `position ... moves` accepts exactly legal moves
# =================================================================================================
prop("C12",
     level="proof",
     slices=["verif_position_step"],
     explanation="Printer: Move::uci_notation == standard long-algebraic text for every move value of every kind. Round trip: for every "
                 "symbolic position and every acceptable move, from_uci_notation(text(m)) == Some(m) (so texts of distinct legal moves differ). "
                 "Exactness: for EVERY string of 0..=6 ASCII bytes and every position, if the parser answers Some(m) and m could be a member of "
                 "the legal list, the string is exactly text(m) -- so no string other than a legal move's text is accepted as that move. "
                 "Acceptance step (slice of command_position's loop body, against abstract parser / generator / push_history): played iff parsed "
                 "and member of the CHECKED list, exactly that move, exactly once; otherwise error and nothing played. Membership list == legal "
                 "moves is C01.",
     assumptions=["strings longer than 6 bytes: the parser's length test is the same code path as for 6 (read); bytes >= 128 (non-ASCII) not covered by the harness",
                  "C01 for `checked list == legal moves`", "the loop around the step and the tokenisation are glue"],
     not_machine_checked=["command_position: tokenisation, `for move_str` header, startpos/fen dispatch"])
_F12 = ["Move::uci_notation", "Move::from_uci_notation"]
for _k in ["normal", "promotion", "enpassant", "castling_short", "castling_long"]:
    ob("c12_print_" + _k, "chess::move_struct::verif_move::c12_print_" + _k, ["C12"], f"uci_notation == standard text, every {_k} move value", _F12, timeout=2400)
    ob("c12_roundtrip_" + _k, "chess::move_struct::verif_move::c12_roundtrip_" + _k, ["C12"],
       f"forall position, acceptable {_k} move m: from_uci_notation(text(m), g) == Some(m)", _F12, timeout=900)
for _n in ["4", "5", "6"]:
    ob(f"c12_exact_{_n}_bytes", f"chess::move_struct::verif_move::c12_exact_{_n}_bytes", ["C12"],
       f"forall position, forall {_n}-byte ASCII string s: from_uci_notation(s) == Some(m) and m acceptable => s == text(m)", _F12, timeout=900)
ob("c12_short_strings_rejected", "chess::move_struct::verif_move::c12_short_strings_rejected", ["C12"], "strings of 0..3 bytes are rejected", _F12, timeout=300)
ob("position_step_contract", "uci::verif_uci::position_step_contract", ["C12", "C15"],
   "slice verif_position_step vs abstract parser/generator/push_history: played iff parsed and member of the checked list (exactly once, that move); else error, nothing played; length guard at 400",
   ["uci::command_position (per-move step)"], timeout=2400)

# =================================================================================================
# C17 -- FEN import is faithful and rejects malformed text without crashing
# =================================================================================================
prop("C17",
     level="other",
     slices=["verif_fen_step", "verif_fen_side", "verif_fen_castling", "verif_fen_ep", "verif_fen_tail"],
     explanation="Game::new as a whole is beyond CBMC (string tokenisation + anyhow; measured). Proved, each on its full symbolic domain, are the "
                 "verbatim slices of it: the board scanner's per-character step (all chars x all scanner states: never panics, stays on the board, "
                 "accepts only `/` after a complete rank, fitting digits 1..8 and piece letters, writes exactly the squares the character denotes "
                 "with published key and piece-square value, totals in step), the side / castling / e.p. field parsers (all ASCII strings of 1..5 "
                 "bytes: accepted iff well-formed, value as written, other bits untouched) and the tail (both kings required, game carries exactly "
                 "the scanned data, hash completed with the state key). NOT machine-checked: tokenisation, the loop headers, field order (glue). "
                 "Level `other`: proof for the slices, composition by the induction argument of DESIGN.md, glue read + tested natively.",
     assumptions=["glue of Game::new (split_ascii_whitespace, `for character in pieces.chars()`, `row != 0 || col != 8` test, order of fields) is read, not proved",
                  "non-ASCII bytes (>= 128) in the side/castling/e.p. fields are not covered by the field harnesses (the scanner step covers all chars)",
                  "sane positions: score bound holds (an absurd position with > 36 queens of one colour can overflow the i16 score in a checked build)",
                  "std::backtrace::Backtrace::capture has no effect on program state (stubbed); a forgotten anyhow::Error changes nothing observable",
                  "legal moves of the imported position: C01 on the imported view"],
     not_machine_checked=["Game::new tokenisation and loop glue", "half-move / full-move counter fields (ignored by the engine)"])
_F17 = ["Game::new (slices)", "Piece::from_char_ascii", "Position::new_assert", "GameState::set_*"]
ob("fen_step_contract", "chess::verif_chess::fen::fen_step_contract", ["C17", "C04", "C16", "C15"],
   "scanner step, all chars x all (row,col): no panic; Ok => on board, character well-formed in context, exactly its squares written with published key / piece-square value, totals in step",
   _F17, timeout=3600)
for _n in ["1", "2", "3"]:
    ob("fen_side_" + _n, "chess::verif_chess::fen::fen_side_" + _n, ["C17"], f"side field, all {_n}-byte ASCII strings: Ok iff exactly `w` / `b`, value as written", _F17, timeout=2400)
    ob("fen_ep_" + _n, "chess::verif_chess::fen::fen_ep_" + _n, ["C17", "C15"],
       f"e.p. field, all {_n}-byte ASCII strings x side x rights: no panic; Ok iff `-` or file a..h + rank 6/3 for the side to move; file as written; rights untouched", _F17, timeout=2400)
for _n in ["1", "2", "3", "4", "5"]:
    ob("fen_castling_" + _n, "chess::verif_chess::fen::fen_castling_" + _n, ["C17"],
       f"castling field, all {_n}-byte ASCII strings: Ok iff `-` or distinct letters of KQkq; rights == letters; e.p. nibble untouched", _F17, timeout=2400)
ob("fen_tail_contract", "chess::verif_chess::fen::fen_tail_contract", ["C17", "C04"],
   "tail of Game::new: both kings required; game carries scanned board/caches/totals/side; one state entry; hash ^= state key; king cache = scanned king squares", _F17, timeout=2400)
ob("piece_letters_roundtrip", "chess::piece::verif_piece::piece_letters_roundtrip", ["C17", "C11"],
   "as_char_ascii is the FEN letter; from_char_ascii inverts it and accepts exactly the 12 letters among all chars", ["Piece::as_char_ascii", "Piece::from_char_ascii"], timeout=300)

# =================================================================================================
# C11 -- exported FEN describes the position and re-imports to the same game
# =================================================================================================
prop("C11",
     level="other",
     slices=["verif_fen_rank", "verif_fen_fields"],
     explanation="Game::fen as a whole is beyond CBMC (String growth with symbolic lengths exhausts memory, measured). Proved on their full "
                 "symbolic domains are its two verbatim slices: the per-rank writer (for each of the 8 ranks and any contents of the rank: exactly "
                 "the standard placement text -- letters, run-length digits, `/` except after rank 1) and the field writer (side, castling rights, "
                 "e.p. square with rank 6 for White / 3 for Black to move, `0`, full-move number), plus the letter functions (as_char_ascii is the "
                 "FEN letter, from_char_ascii its inverse). The re-import half is by composition with C17 (scanner step and field parsers accept "
                 "exactly this text and rebuild the view), C04 (hash is a function of the view) and C01 (moves are a function of the view); the "
                 "whole fen() -> Game::new round trip is executed only by a native test. Level `other`: slices proved, glue and round trip tested.",
     assumptions=["String::push / String::push_str append exactly the given bytes and nothing else (std contract; stubbed by a byte sink under Kani, real String in the native test)",
                  "glue of fen(): `for row in (0..8).rev()` (rank 8 first) and concatenation order are read + covered by the native round-trip test only",
                  "full-move numbers above 2 (more than 3 recorded moves) are formatted by std's integer Display (trusted)",
                  "re-import: composition with C17 / C04 / C01, not one machine-checked statement"],
     not_machine_checked=["fen() loop header (rank order) and concatenation", "the executed export -> import round trip (native test)"])
_F11 = ["Game::fen (slices)", "Piece::as_char_ascii", "GameState::en_passant", "GameState::*_castling"]
for _r in range(1, 9):
    ob(f"fen_rank_{_r}", f"chess::verif_chess::fen::fen_rank_{_r}", ["C11"],
       f"slice verif_fen_rank, rank {_r}, any contents: appended bytes == standard placement text of the rank", _F11, timeout=900)
for _k in ["0", "2"]:
    ob(f"fen_fields_{_k}_moves", f"chess::verif_chess::fen::fen_fields_{_k}_moves", ["C11"],
       f"slice verif_fen_fields, any side / state byte, {_k} recorded moves: side, rights, e.p. square (6/3 by side), 0, full-move number", _F11, timeout=900)
ob("native_fen_roundtrip", "chess::verif_chess::fen::native_fen_roundtrip", ["C11", "C17"],
   "TEST (native, concrete): fen() == standard text and Game::new(fen()) has the same view, hash and legal moves, along the 82-ply test game and six lines covering e.p. on a/d/g/h files, one-sided rights, lost rights, promotion",
   ["Game::fen", "Game::new (whole functions, concrete inputs)"], backend="native", complete=False, counts_as_proof=False,
   bounded_note="concrete native run of the glue; not a proof")
for _o in OBS:
    if _o["name"] in ("fen_ep_1", "fen_ep_2", "fen_castling_1", "fen_castling_2", "fen_castling_4", "fen_side_1", "fen_step_contract", "fen_tail_contract"):
        _o["props"] = _o["props"] + ["C11"]     # the importer half of the round trip

for _o in OBS:
    if _o["name"] == "gen_pawn_{i}":
        _o["props"] = _o["props"] + ["C15"]     # Position::add_unsafe call sites (pawn double push), all 64 squares
ob("piece_glyphs", "chess::piece::verif_piece::piece_glyphs", ["C20"], "Piece::as_char: 12 distinct diagram glyphs, white outlined / black filled, order K Q R B N P",
   ["Piece::as_char"], timeout=120)
ob("fen_board_end_contract", "chess::verif_chess::fen::fen_board_end_contract", ["C17", "C11"],
   "slice verif_fen_board_end, all scanner end states: board field accepted iff the scanner stands at row 0, col 8", _F17, timeout=600)
ob("pgn_step_contract", "chess::verif_chess::fen::pgn_step_contract", ["C20"],
   "slice verif_pgn_step, indices 0..=17: `<n>. ` before every White move, move text, one space", ["Game::get_pgn (loop body)"], timeout=600)
PROPS["C20"]["slices"] = ["verif_pgn_step", "verif_display_cell"]
ob("display_cell_contract", "chess::verif_chess::fen::display_cell_contract", ["C20"],
   "slice verif_display_cell, forall board, i, j in 0..8: the character handed to write! for diagram cell (i, j) is the glyph of the piece on rank i+1 / file j of this game, blank iff empty",
   ["Display for Game (diagram cell expression)", "Game::get_position", "Piece::as_char", "Position::new_assert"], timeout=600)
ob("push_closure_contract", "chess::verif_chess::moves::push_closure_contract", ["C01", "C15"],
   "slice verif_push_closure (the closure handed to the generators), forall list length 0..=255 (A6's bound), forall candidate: unchecked push in range for the "
   "buffer type of get_moves' signature, appends exactly the candidate, earlier entries untouched",
   ["Game::get_moves (push closure)"], timeout=900)
OB_SLICES_EXTRA = {"push_closure_contract": ["verif_push_closure"]}
ob("gen_block", "chess::verif_chess::inst::gen_block", ["C01"],
   "slice verif_gen_block (both loop headers included) vs Piece::get_moves recorder: called exactly once for every square holding an own piece, with that piece; no other square; symbolic board",
   ["Game::get_moves (generation loops)"], timeout=600)
ob("filter_block", "chess::verif_chess::inst::filter_block", ["C01", "C03"],
   "slice verif_filter_block (prologue, loop, compaction, truncate) on three arbitrary candidates vs abstract push/is_targeted/pop: result == sub-multiset the step contract keeps; push/pop strictly paired; untouched when verify_king is false",
   ["Game::get_moves (legality filter block)"], timeout=600, complete=False, bounded_note="list length fixed at 3; the per-step contract filter_body is unbounded")
for _k in ["normal", "promotion", "enpassant", "castling_short", "castling_long"]:
    ob("spec_apply_preserves_wf_" + _k, "chess::verif_chess::spec_apply_preserves_wf_" + _k, ["C02", "C01"],
       f"rules only ({_k} moves): WF6 and the number of kings are preserved by spec::apply for every move of push's shape precondition (induction step behind `sequences of any length`)",
       ["spec::apply (lemma)"], timeout=1200)
ob("native_display_and_record", "chess::verif_chess::fen::native_display_and_record", ["C20"],
   "TEST (native, concrete): Display (Hash/Fen/PGN lines, diagram rank 8 first with every glyph) and get_pgn vs the specified record on an 18-ply game with captures, e.p., under-promotion, both castlings",
   ["Display for Game", "Game::get_pgn (whole functions, concrete inputs)"], backend="native", complete=False, counts_as_proof=False,
   bounded_note="concrete native run of the glue; not a proof")
ob("get_moves_prologue", "chess::verif_chess::inst::get_moves_prologue", ["C01"],
   "slice verif_get_moves_prologue: output list emptied; generation goes on iff the mover's cached king square holds a king", ["Game::get_moves (prologue)", "Game::king_exists"], timeout=300)
ob("king_capture_lemma_{i}", "chess::verif_chess::inst::king_capture_lemma::sq{i}", ["C02", "C01"],
   "rules only: a valid move (Normal or Promotion) onto the enemy king's square sq implies that king is attacked (WF9 => no generated move captures a king: push's precondition)",
   ["spec (lemma)"], instances=SQ, timeout=600)
ob("ep_invariant_lemma", "chess::verif_chess::inst::ep_invariant_lemma", ["C02", "C01", "C12"],
   "rules only: spec::apply records an e.p. file only after a pawn double step, with that pawn on the 4th/5th rank of the file and the skipped square empty (WF7 established)",
   ["spec::apply (lemma)"], timeout=600)
ob("get_moves_frame", "chess::verif_chess::inst::get_moves_frame", ["C03", "C01"],
   "WHOLE Game::get_moves vs abstract callees (generator emits nothing, any is_targeted answers, both modes): every field of the game unchanged, list empty -- covers the statements between the sliced regions",
   ["Game::get_moves (whole function, abstract callees)"], timeout=900)


# which verbatim slices an obligation exercises (copied into the evidence with line ranges and text hashes)
OB_SLICES = {
    "fen_step_contract": ["verif_fen_step"], "fen_tail_contract": ["verif_fen_tail"], "fen_board_end_contract": ["verif_fen_board_end"],
    "fen_side_": ["verif_fen_side"], "fen_castling_": ["verif_fen_castling"], "fen_ep_": ["verif_fen_ep"],
    "fen_rank_": ["verif_fen_rank"], "fen_fields_": ["verif_fen_fields"], "pgn_step_contract": ["verif_pgn_step"],
    "gen_body": ["verif_gen_body"], "gen_block": ["verif_gen_block"], "filter_body": ["verif_filter_body"], "filter_block": ["verif_filter_block"],
    "get_moves_prologue": ["verif_get_moves_prologue"], "c13_budget_": ["verif_budget"], "position_step_contract": ["verif_position_step"],
    "autoplay_tail_respects_stack_capacity": ["verif_autoplay_tail"], "display_cell_contract": ["verif_display_cell"],
}
OB_SLICES.update(OB_SLICES_EXTRA)


def slices_of(obligation_name):
    out = []
    for k, v in OB_SLICES.items():
        if obligation_name == k or (k.endswith("_") and obligation_name.startswith(k)):
            out += v
    return out

for _o in OBS:
    if _o["name"].startswith("push_contract_"):
        _o["props"] = _o["props"] + ["C01"]    # WF (king cache, WF6, e.p. file) is preserved by push: the induction C01's precondition rests on

for _o in OBS:
    if _o["name"].startswith("fen_rank_") or _o["name"].startswith("fen_fields_"):
        _o["props"] = _o["props"] + ["C20"]    # the `Fen:` line of `show` is Game::fen(): "FEN line agrees with the game"

# thorough-only extras: longer strings
ob("c12_exact_7_bytes", "chess::move_struct::verif_move::c12_exact_7_bytes", ["C12"],
   "forall position, forall 7-byte ASCII string: never read as an acceptable move", _F12, tier="thorough", timeout=900)
ob("fen_side_4", "chess::verif_chess::fen::fen_side_4", ["C17"], "side field, all 4-byte ASCII strings: rejected", _F17, tier="thorough", timeout=900)
ob("fen_castling_6", "chess::verif_chess::fen::fen_castling_6", ["C17"], "castling field, all 6-byte ASCII strings: rejected", _F17, tier="thorough", timeout=1200)
ob("fen_ep_4", "chess::verif_chess::fen::fen_ep_4", ["C17", "C15"], "e.p. field, all 4-byte ASCII strings: rejected, no panic", _F17, tier="thorough", timeout=900)
for _k in ["normal", "promotion", "enpassant", "castling_short", "castling_long"]:
    ob("stack_discipline_" + _k, "chess::verif_chess::stack_discipline_" + _k, ["C02", "C03", "C15"],
       f"{_k}: state stack of ANY length 2..=511: push appends one entry above an unchanged stack (arrayvec capacity assertion holds), pop removes it; earlier entries untouched",
       _FPUSH + ["Game::pop"], tier="thorough", timeout=3600)

ob("gen_king_safety_{i}", "chess::verif_chess::inst::gen_king_safety::sq{i}", ["C15"],
   "king of the side to move on sq of ANY board / state byte (no WF6: rights may be held off the home square, as the FEN reader allows): generation stays on the board, every unchecked index in range",
   _FGEN, instances=SQ, quick_instances=8, quick_fixed=["00", "01", "04", "07", "56", "60", "63"], timeout=900)
for _o in OBS:
    if _o["name"] == "update_phase_contract":
        _o["props"] = _o["props"] + ["C04"]     # update_phase must leave the hash alone (the hash is a function of the position, not of the phase)


# the deciding method, per property (MANIFEST.technique)
for _p, _t in {
    "C02": "Kani/CBMC contract harnesses of the real Game::push against the rules' successor (spec::apply), per move kind, fully symbolic board / state / move; rules-only induction lemmas",
    "C03": "Kani/CBMC: pop(push(g,m)) == g on every field, split by postcondition group, plus the modular hash/score step against set_position's contract; update_phase contract; whole get_moves frame contract against abstract callees",
    "C04": "Kani/CBMC: representation invariant hash == XOR of published keys via leaf-function contracts (full domains), the set_position contract and the modular push/pop step; engine key tables checked against the key file",
    "C05": "Kani/CBMC: per-feature key distinctness stated on the engine's leaf functions (symbolic square / contents / state bytes); native exhaustive pairwise-XOR test",
    "C11": "Kani/CBMC on verbatim slices of Game::fen (per rank, fields) with String appends sent to a byte sink, and of the importer; native export->import round-trip test",
    "C12": "Kani/CBMC: printer and parser contracts over symbolic positions and ALL ASCII strings of length <= 6 (7 in the thorough tier); slice of command_position's per-move step against abstract parser / generator / push_history",
    "C13": "Kani/CBMC on the verbatim budget slice of command_go over the full u64 domain, std Duration stubbed by an order embedding; "
           "the timer block (verbatim slice) by a native test with real threads, labelled a test (Kani cannot compile it)",
    "C15": "Verus on the mechanically extracted Position functions; Kani/CBMC contract harnesses whose implicit pointer / bounds / debug-assertion checks are the obligations, per unsafe site "
           "(move buffer: the push closure slice for every list length 0..=255, buffer capacity taken from get_moves' signature)",
    "C16": "Kani/CBMC: Piece::score == specified piece-square value (full domain), set_position contract, modular push/pop step, update_phase contract against an abstract is_endgame",
    "C17": "Kani/CBMC on verbatim slices of Game::new: scanner step over all chars x all scanner states, field parsers over all short ASCII strings, board-end test, tail",
    "C20": "Kani/CBMC: Move::pgn_notation against the specified record text for every move value; slices of get_pgn, of fen and of the diagram cell expression of Display (symbolic board and cell); native display test for the loop glue",
}.items():
    PROPS[_p]["technique"] = _t

ob("fen_side_key_contract", "chess::verif_chess::fen::fen_side_key_contract", ["C04", "C17"],
   "slice verif_fen_side_key: the importer XORs the published side key into the hash exactly when Black is to move", _F17, timeout=300)
OB_SLICES["fen_side_key_contract"] = ["verif_fen_side_key"]
ob("fen_board_loop_one_piece", "chess::verif_chess::fen::fen_board_loop_one_piece", ["C11", "C20"],
   "slice verif_fen_board_loop (loop header included) on boards with one piece of any kind on any square: placement field == rank texts from rank 8 down to rank 1",
   _F11, tier="thorough", timeout=5400, complete=False, bounded_note="board restricted to one piece; per-rank contents are covered by fen_rank_*")
OB_SLICES["fen_board_loop_one_piece"] = ["verif_fen_board_loop"]
ob("native_timer_block", "uci::verif_uci::native_timer_block", ["C13"],
   "TEST (native, real threads): slice verif_timer_block: whenever a budget exists and `infinite` is absent -- with or without a depth limit -- a timer "
   "is armed that clears the running flag (200 ms budget: cleared within 1.7 s)",
   ["uci::command_go (timer block, verbatim slice, concrete inputs)"], backend="native", complete=False, counts_as_proof=False,
   bounded_note="concrete native run with real threads; Kani cannot compile this block (ICE in JoinHandle's drop glue: catch_unwind intrinsic); not a proof")
OB_SLICES["native_timer_block"] = ["verif_timer_block"]
ob("native_position_command", "uci::verif_uci::native_position_command", ["C17", "C12"],
   "TEST (native, concrete): whole command_position: refused FEN => error and no position left (also when one was loaded before); accepted FEN replaces it and `moves` are played on it; illegal / malformed moves are errors",
   ["uci::command_position (whole function, concrete inputs)"], backend="native", complete=False, counts_as_proof=False,
   bounded_note="concrete native run of the glue; not a proof")
