"""obligations.py -- the table: which obligations decide which property, at which tier.

An obligation unit is one Kani harness (possibly one of N instances of a per-square family), one
Verus run, or one SMT query.  `complete: True` means the harness quantifies over the full symbolic
domain with constant loop bounds and unwinding assertions on (DESIGN.md 1.3); anything else carries
`complete: False` + `bounded_note` and `counts_as_proof: False`.
"""
import random

COMMON_TRUSTED = [
    "rustc (Kani's pinned nightly) + Kani 0.68 MIR->goto translation + CBMC 6.11 + CaDiCaL",
    "Kani's models of std (allocation never fails)",
    "/verif/contracts/spec.rs: the hand-written statement of the rules / renderings the properties refer to",
    "tools/gen_tree.py + tools/slices.py: byte copy of /repo's working tree, only appends text",
]

PROPS = {}
OBS = []


def prop(pid, **kw):
    kw.setdefault("slices", [])
    kw.setdefault("assumptions", [])
    kw.setdefault("trusted_base", COMMON_TRUSTED)
    kw.setdefault("not_machine_checked", [])
    PROPS[pid] = kw


def ob(name, harness, props, statement, functions, tier="quick", timeout=300, mem_est_gb=3.0, mem_gb=16,
       complete=True, bounded_note=None, backend="kani", instances=None, quick_instances=None, **kw):
    """instances: list of strings substituted for {i} in name/harness (a per-square family)."""
    d = dict(name=name, harness=harness, props=props, statement=statement, functions=functions, tier=tier,
             timeout=timeout, mem_est_gb=mem_est_gb, mem_gb=mem_gb, complete=complete, bounded_note=bounded_note,
             backend=backend, instances=instances, quick_instances=quick_instances)
    d["counts_as_proof"] = kw.pop("counts_as_proof", complete)
    d.update(kw)
    OBS.append(d)


SQ = ["%02d" % i for i in range(64)]


def select(pid, tier, seed):
    """-> (list of concrete obligation units for this run, total number of units over all tiers)"""
    rng = random.Random(seed)
    out, total = [], 0
    for o in OBS:
        if pid not in o["props"]:
            continue
        inst = o["instances"]
        if inst is None:
            total += 1
            if o["tier"] == "quick" or tier == "thorough":
                out.append(dict(o))
            continue
        total += len(inst)
        if o["tier"] == "thorough" and tier == "quick":
            continue
        chosen = list(inst)
        if tier == "quick" and o["quick_instances"] is not None and o["quick_instances"] < len(inst):
            fixed = [i for i in o.get("quick_fixed", []) if i in inst]
            rest = [i for i in inst if i not in fixed]
            rng.shuffle(rest)
            chosen = sorted(fixed + rest[: max(0, o["quick_instances"] - len(fixed))])
        for i in chosen:
            c = dict(o)
            c["name"] = o["name"].replace("{i}", i)
            c["harness"] = o["harness"].replace("{i}", i)
            c["instance"] = i
            if len(chosen) < len(inst):
                c["subset_note"] = f"quick tier ran {len(chosen)} of {len(inst)} instances (seeded)"
            out.append(c)
    return out, total


def run_other(o, scratch, log):
    if o["backend"] == "smt":
        import run_smt
        return run_smt.run(o, scratch, log)
    if o["backend"] == "verus":
        import run_verus
        return run_verus.run(o, scratch, log)
    if o["backend"] == "native":
        import run_native
        return run_native.run(o, scratch, log)
    raise ValueError(o["backend"])


# =================================================================================================
# C13 -- thinking time never exceeds the time available
# =================================================================================================
prop("C13",
     level="proof",
     slices=["verif_budget"],
     explanation="Contract of the time-budget arithmetic of uci::command_go, cut verbatim as slice verif_budget: for all "
                 "u64 clocks/increments/movetime and either side, no overflow/underflow and budget <= the mover's remaining "
                 "clock (clock mode) resp. <= movetime. Kani decides it bit-precisely for clocks <= 2^53 ms; the float term for "
                 "larger clocks is an SMT lemma. std::time::Duration arithmetic is an assumed dependency contract (stubbed by an "
                 "order-embedding), because 64-bit division circuits make the real Duration code intractable for SAT. The "
                 "'announced within the budget' half depends on thread scheduling and on C07 and is not decided.",
     assumptions=[
         "Duration::from_millis is an order embedding of u64 milliseconds and Duration::saturating_sub subtracts exactly on "
         "whole-millisecond values (std contract, stubbed under Kani; the native replay uses the real std code)",
         "the timer thread sleeps exactly the Duration computed by the slice (thread::sleep contract; scheduling not modelled)",
         "all four of wtime/btime/winc/binc present, as in the property's quantifier",
         "SMT lemma: hand encoding of Rust's `u64 as f64` (round-to-nearest-even) and `f64 as u64` (truncating, saturating)",
     ],
     not_machine_checked=["argument parsing of `go`", "that bestmove is printed before the budget elapses (scheduling, C07)"])

_F13 = ["uci::command_go (slice verif_budget: budget arithmetic)"]
ob("c13_budget_clock_mode", "uci::verif_uci::c13_budget_clock_mode", ["C13"],
   "forall wtime,btime<=2^53, winc,binc: u64, side: no overflow panic and budget <= mover's clock", _F13, timeout=300)
ob("c13_budget_movetime_mode", "uci::verif_uci::c13_budget_movetime_mode", ["C13"],
   "forall movetime: u64: budget <= movetime", _F13, timeout=120)
ob("c13_budget_movetime_with_clocks", "uci::verif_uci::c13_budget_movetime_with_clocks", ["C13"],
   "forall clocks and movetime: movetime takes precedence, budget <= movetime, no overflow panic", _F13, timeout=300)

# =================================================================================================
NOT_APPLICABLE = {
    "C06": "legality of the announced move for every table history needs an invariant over the recursive search and the shared HashMap; "
           "outside Kani's and Verus' reach on the real code (HashMap with symbolic keys: no result; recursion over a game tree)",
    "C07": "stop-flag timing is a property of the recursive search driver plus threads; a contract check of the real driver was tried and is out of reach (DESIGN.md section 5)",
    "C08": "termination of the iterative-deepening driver for every table content: driver clones the Game through the FEN reader and walks a HashMap, both beyond CBMC here (DESIGN.md section 5)",
    "C09": "equality of the pruned search with plain negamax is an induction over the game tree relating two recursions; no function-local contract within reach expresses it",
    "C10": "needs completeness of the search for mates within the horizon: whole-recursion property plus an independent solver",
    "C14": "concurrency (three threads, atomics, a mutex, stdout ordering): Kani has no thread support; Verus only for code written with its permission types",
    "C18": "validity of the reconstructed PV is the same table-history invariant as C06",
    "C19": "run-to-run reproducibility (timing, memory layout, iteration order) is not a functional contract a deductive verifier can observe",
}

# =================================================================================================
# C20 -- the move record shows what was played
# =================================================================================================
prop("C20",
     level="proof",
     explanation="Contract of Move::pgn_notation against spec::record_text for every move value of every kind (piece letter, origin "
                 "file, x iff capture, destination, =Q/R/B/N, O-O, O-O-O), fully symbolic fields; Game::get_pgn's numbering loop body as "
                 "a slice; Piece::as_char distinct glyph per piece. The board diagram loop of Display (64 write! calls through "
                 "core::fmt) and the loop headers are glue: not machine-checked.",
     assumptions=["String/core::fmt code of std is verified along the executed paths only (Kani's std models)",
                  "the Hash:/Fen:/PGN: lines of Display print self.hash, self.fen(), self.get_pgn() (read; C04, C11 cover those values)"],
     not_machine_checked=["Display for Game: diagram loop (row/column order)", "get_pgn loop header / collect()"])
_F20 = ["Move::pgn_notation", "Piece::as_str_pgn"]
for _n, _st in [("normal_pawn_quiet", "pawn push"), ("normal_pawn_capture", "pawn capture"), ("normal_piece_quiet", "piece move"),
                ("normal_piece_capture", "piece capture")]:
    ob("c20_record_" + _n, "chess::move_struct::verif_move::c20_record_" + _n, ["C20"],
       f"forall piece, start != end, captured ({_st} case of a 4-way partition): pgn_notation(Normal) == [letter] origin-file [x] destination",
       _F20, timeout=600)
for _n in ["quiet", "capture"]:
    ob("c20_record_promotion_" + _n, "chess::move_struct::verif_move::c20_record_promotion_" + _n, ["C20"],
       f"forall owner, new_piece in QRBN, start, end, captured ({_n} case): pgn_notation(Promotion) == origin-file [x] destination = piece",
       _F20, timeout=600)
ob("c20_record_castling_short", "chess::move_struct::verif_move::c20_record_castling_short", ["C20"], "O-O for either owner", _F20, timeout=300)
ob("c20_record_castling_long", "chess::move_struct::verif_move::c20_record_castling_long", ["C20"], "O-O-O for either owner", _F20, timeout=300)
ob("c20_record_enpassant", "chess::move_struct::verif_move::c20_record_enpassant", ["C20"],
   "e.p. as origin-file x destination-file rank(6|3) for every owner / file pair", _F20, timeout=600)

# =================================================================================================
# C02 -- playing a move produces the prescribed position
# =================================================================================================
_FPUSH = ["Game::push", "Game::set_position", "Game::set_king_position", "Game::state", "Game::get_position",
          "GameState::set_en_passant", "GameState::set_*_castling_false", "GameState::hash", "Piece::score", "Piece::hash",
          "Position::new_assert", "Position::as_usize"]
prop("C02",
     level="proof",
     explanation="Contract of Game::push per move kind against spec::apply (the successor the rules prescribe): for every symbolic "
                 "board, state byte, side and every move value satisfying the weakest shape precondition (implied by membership in the "
                 "generated list + WF), the successor view equals spec::apply at an arbitrary square, side, each castling right, and the "
                 "e.p. file (set iff a double push lands beside an enemy pawn); one state entry is added and earlier entries are untouched; "
                 "king cache preserved. WF6 (right => king and rook at home) preservation is a separate obligation. 'Sequences of any length' "
                 "is the induction over WF (DESIGN.md 3.3).",
     assumptions=["state stack depth instantiated at 2 (arrayvec push_unchecked/last are length-generic library code)",
                  "score bound |score| <= 10700 from the material bound (lemma score_tables_bounded + paper step, DESIGN.md 3.3)"])
for _k in ["normal", "promotion", "enpassant", "castling_short", "castling_long"]:
    ob("push_contract_" + _k, "chess::verif_chess::push_contract_" + _k, ["C02"],
       f"forall game, {_k} move with shape pre + WF6: view(push(g,m)) == spec::apply(view(g), m); len+1; earlier entries kept; king cache kept",
       _FPUSH, timeout=900)
