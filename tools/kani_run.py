"""kani_run.py -- build the generated tree once, run Kani harnesses in parallel, classify results,
extract concrete counterexamples and replay them natively.

Classification of one harness run (see DESIGN.md section 2):
  discharged   VERIFICATION:- SUCCESSFUL, >0 checks, every cover SATISFIED
  violated     a non-unwinding, non-"unsupported" check FAILED
  undecided    timeout, memory cap, crash, compile error, failed unwinding assertion, unsupported
               construct reached, unsatisfied cover (vacuous harness)
"""
import os, re, signal, subprocess, sys, time, json, resource, shutil, threading
from concurrent.futures import ThreadPoolExecutor

HERE = os.path.dirname(os.path.abspath(__file__))
VERIF = os.path.dirname(HERE)

BASE_FLAGS = ["--no-assertion-reach-checks", "-Z", "stubbing", "-Z", "function-contracts", "-Z", "unstable-options"]


def _env():
    e = dict(os.environ)
    e["CARGO_NET_OFFLINE"] = "true"
    e.pop("RUSTFLAGS", None)
    return e


def _limits(mem_gb):
    def f():
        os.setsid()
        if mem_gb:
            b = int(mem_gb * (1 << 30))
            try:
                resource.setrlimit(resource.RLIMIT_AS, (b, b))
            except Exception:
                pass
    return f


def run_cmd(cmd, cwd, timeout, mem_gb=None, env=None):
    """run with its own process group; kill the whole group on timeout. returns (rc|None, out, secs)"""
    t0 = time.time()
    p = subprocess.Popen(cmd, cwd=cwd, stdout=subprocess.PIPE, stderr=subprocess.STDOUT, text=True,
                         env=env or _env(), preexec_fn=_limits(mem_gb))
    try:
        out, _ = p.communicate(timeout=timeout)
        rc = p.returncode
    except subprocess.TimeoutExpired:
        try:
            os.killpg(p.pid, signal.SIGKILL)
        except ProcessLookupError:
            pass
        out, _ = p.communicate()
        rc = None
    return rc, out, time.time() - t0


def build(scratch, log):
    """compile every harness once (cargo kani --only-codegen). returns (ok, output)"""
    rc, out, secs = run_cmd(["cargo", "kani", "--only-codegen"] + BASE_FLAGS, scratch, 900)
    log(f"[build] cargo kani --only-codegen: rc={rc} {secs:.1f}s")
    return rc == 0, out, secs


def broken_wrappers(build_output, wrappers):
    """compile errors of the generated tree -> (set of slice names whose wrapper contains an error, number of errors elsewhere)"""
    broken, elsewhere = set(), 0
    for blk in re.split(r"\n(?=error|warning)", build_output):
        if not blk.startswith("error"):
            continue
        if blk.startswith("error: could not compile") or blk.startswith("error: Failed to") or blk.startswith("error: aborting"):
            continue
        m = re.search(r"-->\s+(\S+?):(\d+):\d+", blk)
        if not m:
            elsewhere += 1
            continue
        path, line = m.group(1), int(m.group(2))
        hit = None
        for name, w in wrappers.items():
            if path.endswith(w["file"]) and w["first"] <= line <= w["last"]:
                hit = name
        if hit:
            broken.add(hit)
        else:
            elsewhere += 1
    return broken, elsewhere


CHECK_RE = re.compile(r"^Check (\d+): (.+)\n\t - Status: (\w+)\n\t - Description: \"(.*)\"\n\t - Location: (.*)$", re.M)


def parse(out):
    checks = [dict(n=int(m.group(1)), name=m.group(2), status=m.group(3), desc=m.group(4), loc=m.group(5))
              for m in CHECK_RE.finditer(out)]
    res = {"checks": checks}
    m = re.search(r"VERIFICATION:- (\w+)", out)
    res["verdict"] = m.group(1) if m else None
    m = re.search(r"Verification Time: ([\d.]+)s", out)
    res["solver_s"] = float(m.group(1)) if m else None
    res["stubs"] = re.findall(r"- Stub: (.*)", out)
    return res


def classify(rc, out):
    """-> (status, detail dict)   status in discharged|violated|undecided"""
    if rc is None:
        return "undecided", {"reason": "timeout"}
    r = parse(out)
    checks = r["checks"]
    props = [c for c in checks if ".cover." not in c["name"]]
    covers = [c for c in checks if ".cover." in c["name"]]
    detail = {"n_checks": len(props), "n_covers": len(covers), "solver_s": r["solver_s"], "stubs": r["stubs"]}
    if r["verdict"] is None:
        reason = "verifier-crash"
        if re.search(r"error(\[E\d+\])?:", out) and "could not compile" in out:
            reason = "compile-error"
        elif "out of memory" in out.lower() or "bad_alloc" in out or "std::bad_alloc" in out:
            reason = "memory-cap"
        elif "no harnesses matched" in out or "No proof harnesses" in out:
            reason = "harness-not-found"
        detail["reason"] = reason
        detail["tail"] = out[-1500:]
        return "undecided", detail
    failed = [c for c in props if c["status"] == "FAILURE"]
    undet = [c for c in props if c["status"] not in ("SUCCESS", "FAILURE")]
    unwind = [c for c in failed if ".unwind." in c["name"] or "unwinding assertion" in c["desc"]]
    unsupported = [c for c in failed if "not currently supported by Kani" in c["desc"] or "unsupported" in c["name"]]
    real = [c for c in failed if c not in unwind and c not in unsupported]
    detail["failed"] = [{"name": c["name"], "desc": c["desc"], "loc": c["loc"]} for c in real]
    if real:
        # with a failed unwinding assertion other failures may be spurious (incomplete unrolling
        # only removes paths, it never adds them: failures are still real)
        return "violated", detail
    if unwind:
        detail["reason"] = "unwinding-assertion-failed"
        return "undecided", detail
    if unsupported:
        detail["reason"] = "unsupported-construct-reached"
        return "undecided", detail
    if r["verdict"] != "SUCCESSFUL":
        detail["reason"] = "verdict-" + str(r["verdict"])
        detail["undetermined"] = [c["desc"] for c in undet][:5]
        return "undecided", detail
    bad_cov = [c for c in covers if c["status"] != "SATISFIED"]
    if bad_cov:
        detail["reason"] = "vacuous: cover not satisfied: " + "; ".join(c["desc"] for c in bad_cov)
        return "undecided", detail
    if len(props) == 0:
        detail["reason"] = "zero-obligations"
        return "undecided", detail
    return "discharged", detail


def harness_cmd(harness, extra=()):
    return ["cargo", "kani", "--harness", harness, "--exact"] + BASE_FLAGS + list(extra)


def run_harness(scratch, ob, log):
    cmd = harness_cmd(ob["harness"], ob.get("kani_args", ()))
    rc, out, secs = run_cmd(cmd, scratch, ob.get("timeout", 600), ob.get("mem_gb", 16))
    status, detail = classify(rc, out)
    if status == "undecided" and str(detail.get("reason", "")).startswith("verdict-FAILED"):
        # the verifier said FAILED but printed no per-check result (seen once, on a machine shared with three other checks):
        # no decision can be read from that, so the harness is run once more before it is reported as undecided
        log(f"[kani] {ob['harness']}: FAILED without per-check results, running it once more")
        rc, out, secs2 = run_cmd(cmd, scratch, ob.get("timeout", 600), ob.get("mem_gb", 16))
        secs += secs2
        status, detail = classify(rc, out)
        detail["rerun"] = "first run ended FAILED without per-check results"
    detail["wall_s"] = round(secs, 1)
    detail["cmd"] = " ".join(cmd)
    log(f"[kani] {ob['harness']}: {status}" + (f" ({detail.get('reason')})" if status == "undecided" else "") +
        f" checks={detail.get('n_checks')} {secs:.1f}s")
    return status, detail, out


def run_many(scratch, obs, jobs, log):
    """obs: list of obligation dicts. returns {harness: (status, detail, out)}"""
    results = {}
    # memory-aware: cap concurrent jobs so that sum(mem_gb) stays under the budget
    budget = float(os.environ.get("VERIF_MEM_GB", "52"))
    lock = threading.Condition()
    used = [0.0]

    def work(ob):
        need = min(ob.get("mem_est_gb", 3.0), budget)
        with lock:
            while used[0] + need > budget:
                lock.wait()
            used[0] += need
        try:
            return ob["harness"], run_harness(scratch, ob, log)
        finally:
            with lock:
                used[0] -= need
                lock.notify_all()

    # longest first
    order = sorted(obs, key=lambda o: -o.get("timeout", 600))
    with ThreadPoolExecutor(max_workers=max(1, jobs)) as ex:
        for h, r in ex.map(work, order):
            results[h] = r
    return results


# ---------------------------------------------------------------- counterexample + native replay

VEC_RE = re.compile(r"^\s*vec!\[([0-9,\s]*)\],?\s*$", re.M)


def concrete_values(scratch, ob, log):
    """re-run a failing harness with concrete playback.  Kani prints one unit test per failed check;
    returns [(check description, [byte lists])] (possibly empty) and the raw output"""
    cmd = harness_cmd(ob["harness"], list(ob.get("kani_args", ())) + ["-Z", "concrete-playback", "--concrete-playback=print"])
    rc, out, secs = run_cmd(cmd, scratch, ob.get("timeout", 600) * 2, ob.get("mem_gb", 16))
    blocks = []
    for m in re.finditer(r"Check for `(?!cover)[^`]*`: \"(.*?)\"\n(.*?)concrete_vals: Vec<Vec<u8>> = vec!\[\n(.*?)\n\s*\];", out, re.S):
        vals = [[int(t) for t in v.group(1).replace(" ", "").split(",") if t != ""] for v in VEC_RE.finditer(m.group(3))]
        blocks.append((m.group(1), vals))
    log(f"[playback] {ob['harness']}: {len(blocks)} concrete counterexample(s) printed ({secs:.1f}s)")
    return blocks, out


_replay_built = {}


def build_replay(scratch, log):
    if scratch in _replay_built:
        return _replay_built[scratch]
    env = _env()
    env["RUSTFLAGS"] = "--cfg verif_replay -A warnings"
    env["CARGO_TARGET_DIR"] = os.path.join(scratch, "target_replay")
    rc, out, secs = run_cmd(["cargo", "test", "--offline", "--no-run", "--message-format=json"], scratch, 900, env=env)
    exe = None
    for line in out.splitlines():
        if line.startswith("{") and '"executable"' in line:
            try:
                d = json.loads(line)
                if d.get("executable") and d.get("profile", {}).get("test"):
                    exe = d["executable"]
            except Exception:
                pass
    log(f"[replay] native build rc={rc} {secs:.1f}s exe={exe}")
    _replay_built[scratch] = (exe, out if exe is None else "")
    return _replay_built[scratch]


def native_replay(scratch, harness, values, log):
    """run harness natively with the given draw values. returns dict(outcome, output)"""
    exe, err = build_replay(scratch, log)
    if exe is None:
        return {"outcome": "replay-build-failed", "output": err[-3000:]}
    vf = os.path.join(scratch, f"values-{abs(hash(harness))}.txt")
    with open(vf, "w") as f:
        for v in values:
            f.write(",".join(str(b) for b in v) + "\n")
    env = _env()
    env["VERIF_REPLAY_VALUES"] = vf
    env["RUST_BACKTRACE"] = "0"
    rc, out, secs = run_cmd([exe, "--exact", harness, "--nocapture", "--test-threads", "1"], scratch, 300, env=env)
    if "running 0 tests" in out or "running 1 test" not in out:
        outcome = "not-replayable-natively (the harness runs against abstract callees that exist only under the verifier)"
    elif "VERIF-REPLAY-VACUOUS" in out:
        outcome = "replay-diverged"
    elif rc == 0:
        outcome = "not-reproduced-natively"
    elif rc is None:
        outcome = "replay-timeout"
    else:
        outcome = "confirmed-natively"
    m = re.search(r"panicked at (.*?):\n(.*)", out)
    panic = (m.group(1) + ": " + m.group(2).strip()) if m else None
    return {"outcome": outcome, "panic": panic, "output": out[-3000:], "exhausted": "VERIF-REPLAY-EXHAUSTED" in out}
