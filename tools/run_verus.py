"""run_verus.py -- Verus obligation for chess/position.rs.

The functions Position::{new, add, as_usize, row, col} are extracted MECHANICALLY from the current
working tree (the scratch copy made by gen_tree.py) on every run: signature and body text are copied
verbatim, the contract clauses of CONTRACTS are spliced between signature and body, and the result
type gets a name.  Dropped: doc comments, #[inline], the derive list except Clone/Copy (Verus has no
Debug derive), the associated consts, and the functions Verus does not accept as they are
(new_assert: assert! macro; new_unsafe / add_unsafe: `unsafe fn` -- all three are under Kani
contracts in c_position.rs).
"""
import json, os, re, subprocess, sys, time
HERE = os.path.dirname(os.path.abspath(__file__))
sys.path.insert(0, HERE)
from slices import _mask, _block_end, LostAnchor

VALID = "0 <= self.0 < 8 && 0 <= self.1 < 8"
CONTRACTS = {
    "new": dict(ret="r", requires=[], ensures=[
        "r.is_some() <==> (0 <= row < 8 && 0 <= col < 8)",
        "r.is_some() ==> r.unwrap().0 == row && r.unwrap().1 == col"]),
    "row": dict(ret="r", requires=[], ensures=["r == self.0"]),
    "col": dict(ret="r", requires=[], ensures=["r == self.1"]),
    "add": dict(ret="r", requires=[VALID, "-8 <= delta.0 <= 8 && -8 <= delta.1 <= 8"], ensures=[
        "r.is_some() <==> (0 <= self.0 + delta.0 < 8 && 0 <= self.1 + delta.1 < 8)",
        "r.is_some() ==> r.unwrap().0 == self.0 + delta.0 && r.unwrap().1 == self.1 + delta.1"]),
    "as_usize": dict(ret="r", requires=[VALID], ensures=["r < 64", "r == self.0 * 8 + self.1"]),
}


def extract(src):
    lines = src.split("\n")
    masked = _mask(src).split("\n")
    m = re.search(r"^pub struct Position\((.*)\);", src, re.M)
    if not m:
        raise LostAnchor("struct Position")
    out = ["use vstd::prelude::*;", "verus! {", "#[derive(Clone, Copy)]", f"pub struct Position(pub {m.group(1).split(',')[0].strip()}, pub {m.group(1).split(',')[1].strip()});", "impl Position {"]
    for name, c in CONTRACTS.items():
        hits = [k for k, l in enumerate(masked) if re.search(r"\bpub fn %s\(" % name, l)]
        if len(hits) != 1:
            raise LostAnchor(f"fn Position::{name} ({len(hits)} matches)")
        a = hits[0]
        b = _block_end(masked, a)
        text = "\n".join(lines[a:b + 1])
        i = text.index("{")
        sig, body = text[:i].rstrip(), text[i:]
        sm = re.match(r"(?s)(.*\))\s*->\s*(.*)$", sig)
        if not sm:
            raise LostAnchor(f"signature of Position::{name}")
        sig2 = f"{sm.group(1)} -> ({c['ret']}: {sm.group(2).strip()})"
        clauses = ""
        if c["requires"]:
            clauses += "\n    requires " + ", ".join(c["requires"]) + ","
        clauses += "\n    ensures " + ", ".join(c["ensures"]) + ","
        out.append(f"// ---- verbatim position.rs lines {a + 1}-{b + 1}: signature, then contract, then body ----")
        out.append(sig2 + clauses + "\n" + body)
    out += ["}", "} // verus!", "fn main() {}"]
    return "\n".join(out)


def run(o, scratch, log):
    t0 = time.time()
    src_path = os.path.join(scratch, "src", "engine", "chess", "position.rs")
    detail = {"n_checks": 0, "solver_s": 0.0}
    try:
        text = extract(open(src_path).read())
    except (LostAnchor, OSError) as e:
        detail["reason"] = f"lost-anchor: {e}"
        return "undecided", detail, ""
    f = os.path.join(scratch, "verus_position.rs")
    open(f, "w").write(text)
    try:
        p = subprocess.run(["verus", f, "--output-json", "--time"], capture_output=True, text=True, timeout=300, cwd=scratch)
    except subprocess.TimeoutExpired:
        detail["reason"] = "timeout"
        return "undecided", detail, ""
    out = p.stdout + "\n" + p.stderr
    detail["wall_s"] = round(time.time() - t0, 1)
    detail["cmd"] = "verus verus_position.rs --output-json --time"
    try:
        j = json.loads(p.stdout[p.stdout.index("{"):])
    except Exception:
        detail["reason"] = "verus-output-unparsable"
        detail["tail"] = out[-1500:]
        return "undecided", detail, out
    vr = j.get("verification-results", {})
    ver, err = vr.get("verified", 0), vr.get("errors", 0)
    detail["n_checks"] = ver + err
    detail["solver_s"] = round(j.get("times-ms", {}).get("smt", {}).get("total", 0) / 1000.0, 2) if isinstance(j.get("times-ms"), dict) else 0.0
    log(f"[verus] position.rs: verified={ver} errors={err} success={vr.get('success')} {detail['wall_s']}s")
    if vr.get("success") and err == 0 and ver >= len(CONTRACTS):
        return "discharged", detail, out
    if err > 0 and vr.get("encountered-vir-error") is not True and "error: " in out and ("postcondition not satisfied" in out or "precondition not satisfied" in out or "possible arithmetic" in out or "assertion failed" in out):
        msgs = re.findall(r"error: ([^\n]*)", out)
        detail["failed"] = [{"name": "verus", "desc": m, "loc": "verus_position.rs"} for m in msgs[:5]]
        return "violated", detail, out
    detail["reason"] = "verus-did-not-accept-the-extracted-text (unsupported construct or changed shape)"
    detail["tail"] = out[-1500:]
    return "undecided", detail, out


if __name__ == "__main__":
    print(extract(open(sys.argv[1]).read()))
