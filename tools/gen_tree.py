#!/usr/bin/env python3
"""gen_tree.py -- build the crate that the verifiers (and the native replay) compile.

Every run copies the *current working tree* of the repository byte for byte and only ever
ADDS text to the copy:

  * `src/engine/**`            <- /repo/src/** (main.rs excluded: CLI argument parsing only)
  * `src/zobrist_bytes.bin`    <- /repo/zobrist_bytes.bin   (so `include_bytes!("../../zobrist_bytes.bin")` resolves)
  * `Cargo.toml`               <- package stub + the [dependencies] table of /repo/Cargo.toml, verbatim
  * `Cargo.lock`               <- /repo/Cargo.lock
  * `src/main.rs`              <- `#[path] mod` lines for every engine module + nd.rs + spec.rs
  * one line appended to each file in MODS: a `#[cfg(any(kani, verif_replay))] #[path=...] mod verif_*;`
    child module (a child sees its ancestors' private items)
  * slices (tools/slices.py): a region of a function body located by anchors + brace matching,
    copied VERBATIM into a wrapper fn appended to the same file under the same cfg.

Nothing that exists in a copied file is rewritten or deleted.  If an anchor is lost the script
exits 3 and prints `LOST-ANCHOR <slice>`; callers map that to UNDECIDED (exit 2), never to a
violation.
"""
import os, re, shutil, sys, json

HERE = os.path.dirname(os.path.abspath(__file__))
VERIF = os.path.dirname(HERE)
REPO = os.environ.get("VERIF_REPO", "/repo")
CFG = "#[cfg(any(kani, verif_replay))]"

# engine file (relative to src/) -> (module name, contract file under /verif/contracts)
MODS = {
    "chess/mod.rs": ("verif_chess", "c_chess.rs"),
    "chess/gamestate.rs": ("verif_gamestate", "c_gamestate.rs"),
    "chess/position.rs": ("verif_position", "c_position.rs"),
    "chess/piece.rs": ("verif_piece", "c_piece.rs"),
    "chess/move_struct.rs": ("verif_move", "c_move.rs"),
    "uci.rs": ("verif_uci", "c_uci.rs"),
    "search.rs": ("verif_search", "c_search.rs"),
}


sys.path.insert(0, HERE)
from slices import LostAnchor, SLICES, cut_slice  # noqa: E402


def deps_table(cargo_toml: str) -> str:
    m = re.search(r"(?ms)^\[dependencies\]\n(.*?)(?=^\[|\Z)", cargo_toml)
    if not m:
        raise LostAnchor("Cargo.toml [dependencies]")
    return m.group(1).strip() + "\n"


def move_buffer_capacity(mod_rs: str):
    m = re.search(r"pub fn get_moves\(\s*&mut self,\s*moves: &mut ArrayVec<Move, (\d+)>", mod_rs)
    return m.group(1) if m else None


FILE_GROUP = {"c_uci.rs": "uci", "c_move.rs": "move", "c_piece.rs": "piece", "c_position.rs": "position", "c_gamestate.rs": "gamestate",
              "c_search.rs": "search", "c_chess.rs": "core", "c_moves.rs": "moves", "instances.rs": "moves", "c_fen.rs": "fen"}
ALL_GROUPS = sorted(set(FILE_GROUP.values()) | {"rt"})


def group_of(harness: str) -> str:
    for prefix, g in [("uci::verif_uci::", "uci"), ("search::verif_search::", "search"), ("chess::move_struct::verif_move::", "move"), ("chess::piece::verif_piece::", "piece"),
                      ("chess::position::verif_position::", "position"), ("chess::gamestate::verif_gamestate::", "gamestate"),
                      ("chess::verif_chess::inst::", "moves"), ("chess::verif_chess::moves::", "moves"), ("chess::verif_chess::fen::", "fen"),
                      ("chess::verif_chess::roundtrip_", "rt"), ("chess::verif_chess::", "core")]:
        if harness.startswith(prefix):
            return g
    return "core"


def gate_groups(contracts: str, harnesses) -> set:
    """rewrite `kani::proof/stub/unwind` attributes in the scratch copy so that they depend on cfg verif_grp_<group>"""
    needed = set(ALL_GROUPS) if harnesses is None else {group_of(h) for h in harnesses if h}
    for fname, g in FILE_GROUP.items():
        path = os.path.join(contracts, fname)
        if not os.path.exists(path):
            continue
        t = open(path).read()
        t = t.replace("cfg_attr(kani, kani::", f"cfg_attr(all(kani, verif_grp_{g}), kani::")
        t = re.sub(r"#\[kani::(proof|unwind\([^)]*\)|stub\([^\]]*\))\]", lambda m: f"#[cfg_attr(verif_grp_{g}, kani::{m.group(1)})]", t)
        if fname == "c_chess.rs":
            a = t.find("macro_rules! rt_harness")
            if a >= 0:
                b = t.find("\n} }", a)
                t = t[:a] + t[a:b].replace("verif_grp_core", "verif_grp_rt") + t[b:]
        open(path, "w").write(t)
    return needed


def gate_slice_users(contracts: str, slice_names) -> dict:
    """Prefix every contract function / harness that (transitively) uses a slice wrapper with
    `#[cfg(not(any(verif_noslice_<name>, ...)))]`, mechanically, in the scratch copy.  Returns {item name: [slices]}."""
    from slices import _mask, _block_end
    files = {}
    for fname in sorted(os.listdir(contracts)):
        if fname.endswith(".rs"):
            files[fname] = open(os.path.join(contracts, fname)).read().split("\n")
    items = []   # dict(file, name, first, last, kind)
    for fname, lines in files.items():
        masked = _mask("\n".join(lines)).split("\n")
        for k, l in enumerate(masked):
            m = re.search(r"(?:^|[\s\]])(?:pub(?:\([a-z]+\))? )?fn (\w+)\s*(?:<[^>]*>)?\(", l)
            if m:
                try:
                    end = _block_end(masked, k)
                except Exception:
                    continue
                items.append({"file": fname, "name": m.group(1), "first": k, "last": end, "kind": "fn"})
                continue
            m = re.match(r"^\s*macro_rules! (\w+)", l)
            if m:
                try:
                    end = _block_end(masked, k)
                except Exception:
                    continue
                items.append({"file": fname, "name": m.group(1), "first": k, "last": end, "kind": "macro_def"})
                continue
            m = re.match(r"^\s*(\w+)!\((\w+)\s*,", l)
            if m and m.group(1) not in ("assert", "vcover", "println", "eprintln", "matches", "format", "vec"):
                items.append({"file": fname, "name": m.group(2), "first": k, "last": k, "kind": "macro_call", "macro": m.group(1)})
    # skip items nested inside another fn item (closures / inner fns are part of their parent)
    top = []
    for it in items:
        inside = any(o is not it and o["file"] == it["file"] and o["kind"] == "fn" and o["first"] < it["first"] and it["last"] <= o["last"] for o in items)
        if not inside:
            top.append(it)
    deps = {}   # name -> set of slices
    words = {}
    for it in top:
        body = "\n".join(files[it["file"]][it["first"]:it["last"] + 1])
        words[id(it)] = set(re.findall(r"\b\w+\b", body))
    changed = True
    gated_names = {n: {n} for n in slice_names}
    while changed:
        changed = False
        for it in top:
            w = words[id(it)]
            need = set()
            for n, sls in gated_names.items():
                if n in w and n != it["name"]:
                    need |= sls
            if it["kind"] == "macro_call" and it["macro"] in gated_names:
                need |= gated_names[it["macro"]]
            if need - deps.get(id(it), set()):
                deps[id(it)] = deps.get(id(it), set()) | need
                prev = gated_names.get(it["name"], set())
                if not (deps[id(it)] <= prev):
                    gated_names[it["name"]] = prev | deps[id(it)]
                changed = True
    # insert the cfg lines (bottom-up per file so indices stay valid)
    out = {}
    for fname, lines in files.items():
        mine = sorted([it for it in top if it["file"] == fname and deps.get(id(it)) and it["kind"] != "macro_def"], key=lambda i: -i["first"])
        for it in mine:
            k = it["first"]
            while k > 0 and re.match(r"^\s*(#\[|///|//)", lines[k - 1]) and not re.search(r"\bfn \w+|\bmod \w+|!\(", lines[k - 1]):
                k -= 1
            sl = sorted(deps[id(it)])
            lines.insert(k, "#[cfg(not(any(" + ", ".join("verif_noslice_" + x for x in sl) + ")))]")
            out[it["name"]] = sl
        open(os.path.join(contracts, fname), "w").write("\n".join(lines))
    return out


def generate(out: str, repo: str = REPO, verif: str = VERIF, harnesses=None, disabled_slices=()) -> dict:
    src = os.path.join(repo, "src")
    eng = os.path.join(out, "src", "engine")
    if os.path.exists(out):
        shutil.rmtree(out)
    os.makedirs(os.path.join(out, "src"))
    shutil.copytree(src, eng)
    os.remove(os.path.join(eng, "main.rs"))
    shutil.copy(os.path.join(repo, "zobrist_bytes.bin"), os.path.join(out, "src", "zobrist_bytes.bin"))
    shutil.copy(os.path.join(repo, "Cargo.lock"), os.path.join(out, "Cargo.lock"))
    cargo = open(os.path.join(repo, "Cargo.toml")).read()
    with open(os.path.join(out, "Cargo.toml"), "w") as f:
        f.write('[package]\nname = "rustybait"\nversion = "0.1.0"\nedition = "2021"\n\n[dependencies]\n')
        f.write(deps_table(cargo))
        f.write('\n[lints.rust]\nunexpected_cfgs = { level = "allow" }\n')
        f.write('\n[profile.dev]\ndebug-assertions = true\noverflow-checks = true\n')
        f.write('\n[profile.test]\ndebug-assertions = true\noverflow-checks = true\nopt-level = 1\n')
    os.makedirs(os.path.join(out, ".cargo"), exist_ok=True)
    open(os.path.join(out, ".cargo", "config.toml"), "w").write("[net]\noffline = true\n")

    # snapshot of the contract files: a running check is not disturbed by later edits under /verif
    contracts = os.path.join(out, "contracts")
    shutil.copytree(os.path.join(verif, "contracts"), contracts)
    # the capacity of the move buffer is whatever the signature of Game::get_moves says (256 on the pinned tree): the contract
    # files and slice headers name the type `ArrayVec<Move, 256>`; a tree with another capacity gets that number substituted, so
    # that the obligations are DECIDED for it (push_closure_contract: the buffer takes every list assumption A6 allows)
    cap = move_buffer_capacity(open(os.path.join(eng, "chess", "mod.rs")).read())
    if cap is not None and cap != "256":
        for fname in sorted(os.listdir(contracts)):
            if fname.endswith(".rs"):
                cp = os.path.join(contracts, fname)
                ct = open(cp).read()
                if "ArrayVec<Move, 256>" in ct:
                    open(cp, "w").write(ct.replace("ArrayVec<Move, 256>", f"ArrayVec<Move, {cap}>"))
    # per-square harness families: only the instances this run needs (None = none but the singles)
    import gen_instances
    with open(os.path.join(contracts, "instances.rs"), "w") as f:
        f.write(gen_instances.render(gen_instances.needed_from_harnesses(harnesses or [])))
    mods = []
    for name in sorted(os.listdir(eng)):
        if name.endswith(".rs"):
            mods.append((name[:-3], f"engine/{name}"))
        elif os.path.isdir(os.path.join(eng, name)):
            mods.append((name, f"engine/{name}/mod.rs"))
    with open(os.path.join(out, "src", "main.rs"), "w") as f:
        f.write("// generated by /verif/tools/gen_tree.py -- do not edit\n")
        f.write("#![allow(dead_code, unused, clippy::all)]\n")
        f.write("#![cfg_attr(kani, feature(stmt_expr_attributes, proc_macro_hygiene))]\n")
        f.write(f'{CFG}\n#[macro_use]\n#[path = "{contracts}/nd.rs"]\npub mod nd;\n')
        f.write(f'{CFG}\n#[path = "{contracts}/spec.rs"]\npub mod spec;\n')
        for m, p in mods:
            f.write(f'#[path = "{p}"]\nmod {m};\n')
        f.write("fn main() {}\n")

    # ---- harness groups: only the groups this run needs become Kani harnesses (code generation costs
    # about 1 s per harness); the functions themselves are always compiled, only the kani::* attributes are gated
    groups = gate_groups(contracts, harnesses)
    gated = gate_slice_users(contracts, [sl["name"] for sl in SLICES])

    info = {"appended": [], "slices": [], "harness_groups": sorted(groups), "lost_slices": {}, "wrappers": {}}
    for rel, (modname, cfile) in MODS.items():
        target = os.path.join(eng, rel)
        cpath = os.path.join(contracts, cfile)
        if not os.path.exists(cpath):
            continue
        if not os.path.exists(target):
            raise LostAnchor(f"file {rel}")
        with open(target, "a") as f:
            f.write(f'\n{CFG} #[path = "{cpath}"] pub(crate) mod {modname};\n')
        info["appended"].append(rel)

    for sl in SLICES:
        target = os.path.join(eng, sl["file"])
        if not os.path.exists(target):
            raise LostAnchor(f"{sl['name']}: file {sl['file']}")
        text = open(target).read()
        if cap is not None and cap != "256" and "ArrayVec<Move, 256>" in sl["header"]:
            sl = dict(sl, header=sl["header"].replace("ArrayVec<Move, 256>", f"ArrayVec<Move, {cap}>"))
        try:
            wrapper, meta = cut_slice(text, sl)
        except LostAnchor as e:
            # this slice only: its obligations become UNDECIDED, everything else still runs
            info["lost_slices"][sl["name"]] = str(e)
            continue
        first = text.count("\n") + 2
        with open(target, "a") as f:
            f.write("\n" + wrapper + "\n")
        info["wrappers"][sl["name"]] = {"file": "src/engine/" + sl["file"], "first": first, "last": first + wrapper.count("\n") + 1}
        info["slices"].append(meta)
    off = sorted(set(disabled_slices) | set(info["lost_slices"]))
    info["disabled_slices"] = off
    with open(os.path.join(out, "build.rs"), "w") as f:
        f.write("fn main() {\n" + "".join(f'    println!("cargo:rustc-cfg=verif_grp_{g}");\n' for g in sorted(groups))
                + "".join(f'    println!("cargo:rustc-cfg=verif_noslice_{n}");\n' for n in off) + "}\n")
    json.dump(info, open(os.path.join(out, "gen_tree.json"), "w"), indent=1)
    return info


if __name__ == "__main__":
    out = sys.argv[1]
    try:
        info = generate(out)
    except LostAnchor as e:
        print(f"LOST-ANCHOR {e}")
        sys.exit(3)
    info.pop("wrappers", None)
    print(json.dumps(info, indent=1))
