#!/usr/bin/env python3
"""gen_tree.py -- build the crate that the verifiers (and the native replay) compile.

Every run copies the *current working tree* of the repository byte for byte and only ever
ADDS text to the copy:

  * `src/engine/**`            <- /repo/src/** (main.rs excluded: CLI argument parsing only)
  * `src/zobrist_bytes.bin`    <- /repo/zobrist_bytes.bin   (so `include_bytes!("../../zobrist_bytes.bin")` resolves)
  * `Cargo.toml`               <- package stub + the [dependencies] table of /repo/Cargo.toml, verbatim
  * `Cargo.lock`               <- /repo/Cargo.lock
  * `src/main.rs`              <- `#[path] mod` lines for every engine module + nd.rs + spec.rs
  * one line appended to each file in MODS: a `#[cfg(any(kani, verif_replay))] #[path=...] mod verif_*;`
    child module (a child sees its ancestors' private items)
  * slices (tools/slices.py): a region of a function body located by anchors + brace matching,
    copied VERBATIM into a wrapper fn appended to the same file under the same cfg.

Nothing that exists in a copied file is rewritten or deleted.  If an anchor is lost the script
exits 3 and prints `LOST-ANCHOR <slice>`; callers map that to UNDECIDED (exit 2), never to a
violation.
"""
import os, re, shutil, sys, json

HERE = os.path.dirname(os.path.abspath(__file__))
VERIF = os.path.dirname(HERE)
REPO = os.environ.get("VERIF_REPO", "/repo")
CFG = "#[cfg(any(kani, verif_replay))]"

# engine file (relative to src/) -> (module name, contract file under /verif/contracts)
MODS = {
    "chess/mod.rs": ("verif_chess", "c_chess.rs"),
    "chess/gamestate.rs": ("verif_gamestate", "c_gamestate.rs"),
    "chess/position.rs": ("verif_position", "c_position.rs"),
    "chess/piece.rs": ("verif_piece", "c_piece.rs"),
    "chess/move_struct.rs": ("verif_move", "c_move.rs"),
    "uci.rs": ("verif_uci", "c_uci.rs"),
    "search.rs": ("verif_search", "c_search.rs"),
}


sys.path.insert(0, HERE)
from slices import LostAnchor, SLICES, cut_slice  # noqa: E402


def deps_table(cargo_toml: str) -> str:
    m = re.search(r"(?ms)^\[dependencies\]\n(.*?)(?=^\[|\Z)", cargo_toml)
    if not m:
        raise LostAnchor("Cargo.toml [dependencies]")
    return m.group(1).strip() + "\n"


FILE_GROUP = {"c_uci.rs": "uci", "c_move.rs": "move", "c_piece.rs": "piece", "c_position.rs": "position", "c_gamestate.rs": "gamestate",
              "c_search.rs": "search", "c_chess.rs": "core", "c_moves.rs": "moves", "instances.rs": "moves", "c_fen.rs": "fen"}
ALL_GROUPS = sorted(set(FILE_GROUP.values()) | {"rt"})


def group_of(harness: str) -> str:
    for prefix, g in [("uci::verif_uci::", "uci"), ("search::verif_search::", "search"), ("chess::move_struct::verif_move::", "move"), ("chess::piece::verif_piece::", "piece"),
                      ("chess::position::verif_position::", "position"), ("chess::gamestate::verif_gamestate::", "gamestate"),
                      ("chess::verif_chess::inst::", "moves"), ("chess::verif_chess::moves::", "moves"), ("chess::verif_chess::fen::", "fen"),
                      ("chess::verif_chess::roundtrip_", "rt"), ("chess::verif_chess::", "core")]:
        if harness.startswith(prefix):
            return g
    return "core"


def gate_groups(contracts: str, harnesses) -> set:
    """rewrite `kani::proof/stub/unwind` attributes in the scratch copy so that they depend on cfg verif_grp_<group>"""
    needed = set(ALL_GROUPS) if harnesses is None else {group_of(h) for h in harnesses if h}
    for fname, g in FILE_GROUP.items():
        path = os.path.join(contracts, fname)
        if not os.path.exists(path):
            continue
        t = open(path).read()
        t = t.replace("cfg_attr(kani, kani::", f"cfg_attr(all(kani, verif_grp_{g}), kani::")
        t = re.sub(r"#\[kani::(proof|unwind\([^)]*\)|stub\([^\]]*\))\]", lambda m: f"#[cfg_attr(verif_grp_{g}, kani::{m.group(1)})]", t)
        if fname == "c_chess.rs":
            a = t.find("macro_rules! rt_harness")
            if a >= 0:
                b = t.find("\n} }", a)
                t = t[:a] + t[a:b].replace("verif_grp_core", "verif_grp_rt") + t[b:]
        open(path, "w").write(t)
    return needed


def generate(out: str, repo: str = REPO, verif: str = VERIF, harnesses=None) -> dict:
    src = os.path.join(repo, "src")
    eng = os.path.join(out, "src", "engine")
    if os.path.exists(out):
        shutil.rmtree(out)
    os.makedirs(os.path.join(out, "src"))
    shutil.copytree(src, eng)
    os.remove(os.path.join(eng, "main.rs"))
    shutil.copy(os.path.join(repo, "zobrist_bytes.bin"), os.path.join(out, "src", "zobrist_bytes.bin"))
    shutil.copy(os.path.join(repo, "Cargo.lock"), os.path.join(out, "Cargo.lock"))
    cargo = open(os.path.join(repo, "Cargo.toml")).read()
    with open(os.path.join(out, "Cargo.toml"), "w") as f:
        f.write('[package]\nname = "rustybait"\nversion = "0.1.0"\nedition = "2021"\n\n[dependencies]\n')
        f.write(deps_table(cargo))
        f.write('\n[lints.rust]\nunexpected_cfgs = { level = "allow" }\n')
        f.write('\n[profile.dev]\ndebug-assertions = true\noverflow-checks = true\n')
        f.write('\n[profile.test]\ndebug-assertions = true\noverflow-checks = true\nopt-level = 1\n')
    os.makedirs(os.path.join(out, ".cargo"), exist_ok=True)
    open(os.path.join(out, ".cargo", "config.toml"), "w").write("[net]\noffline = true\n")

    # snapshot of the contract files: a running check is not disturbed by later edits under /verif
    contracts = os.path.join(out, "contracts")
    shutil.copytree(os.path.join(verif, "contracts"), contracts)
    # per-square harness families: only the instances this run needs (None = none but the singles)
    import gen_instances
    with open(os.path.join(contracts, "instances.rs"), "w") as f:
        f.write(gen_instances.render(gen_instances.needed_from_harnesses(harnesses or [])))
    mods = []
    for name in sorted(os.listdir(eng)):
        if name.endswith(".rs"):
            mods.append((name[:-3], f"engine/{name}"))
        elif os.path.isdir(os.path.join(eng, name)):
            mods.append((name, f"engine/{name}/mod.rs"))
    with open(os.path.join(out, "src", "main.rs"), "w") as f:
        f.write("// generated by /verif/tools/gen_tree.py -- do not edit\n")
        f.write("#![allow(dead_code, unused, clippy::all)]\n")
        f.write("#![cfg_attr(kani, feature(stmt_expr_attributes, proc_macro_hygiene))]\n")
        f.write(f'{CFG}\n#[macro_use]\n#[path = "{contracts}/nd.rs"]\npub mod nd;\n')
        f.write(f'{CFG}\n#[path = "{contracts}/spec.rs"]\npub mod spec;\n')
        for m, p in mods:
            f.write(f'#[path = "{p}"]\nmod {m};\n')
        f.write("fn main() {}\n")

    # ---- harness groups: only the groups this run needs become Kani harnesses (code generation costs
    # about 1 s per harness); the functions themselves are always compiled, only the kani::* attributes are gated
    groups = gate_groups(contracts, harnesses)
    with open(os.path.join(out, "build.rs"), "w") as f:
        f.write("fn main() {\n" + "".join(f'    println!("cargo:rustc-cfg=verif_grp_{g}");\n' for g in sorted(groups)) + "}\n")

    info = {"appended": [], "slices": [], "harness_groups": sorted(groups)}
    for rel, (modname, cfile) in MODS.items():
        target = os.path.join(eng, rel)
        cpath = os.path.join(contracts, cfile)
        if not os.path.exists(cpath):
            continue
        if not os.path.exists(target):
            raise LostAnchor(f"file {rel}")
        with open(target, "a") as f:
            f.write(f'\n{CFG} #[path = "{cpath}"] pub(crate) mod {modname};\n')
        info["appended"].append(rel)

    for sl in SLICES:
        target = os.path.join(eng, sl["file"])
        if not os.path.exists(target):
            raise LostAnchor(f"{sl['name']}: file {sl['file']}")
        text = open(target).read()
        wrapper, meta = cut_slice(text, sl)
        with open(target, "a") as f:
            f.write("\n" + wrapper + "\n")
        info["slices"].append(meta)
    json.dump(info, open(os.path.join(out, "gen_tree.json"), "w"), indent=1)
    return info


if __name__ == "__main__":
    out = sys.argv[1]
    try:
        info = generate(out)
    except LostAnchor as e:
        print(f"LOST-ANCHOR {e}")
        sys.exit(3)
    print(json.dumps(info, indent=1))
