#!/usr/bin/env python3
"""gen_manifest.py -- writes /verif/MANIFEST.json from tools/obligations.py (PROPS, NOT_APPLICABLE)."""
import json, os, sys
HERE = os.path.dirname(os.path.abspath(__file__)); VERIF = os.path.dirname(HERE)
sys.path.insert(0, HERE)
import obligations as O

props = [json.loads(l)["id"] for l in open(os.path.join(VERIF, "properties.jsonl"))]
checks, na = [], []
for p in props:
    if p in O.PROPS:
        m = O.PROPS[p]
        checks.append({
            "property_id": p,
            "quick_cmd": f"./verify check {p} --tier quick",
            "thorough_cmd": f"./verify check {p} --tier thorough",
            "evidence_file": f"/verif/evidence/{p}.json",
            "replay_cmd_template": "./verify replay {path}",
            "engine": "contracts",
            "level_claimed": {"category": m["level"], "text": m["explanation"], "design_ref": m.get("design_ref", "DESIGN.md section 4, " + p)},
            "level_note": "; ".join(m["assumptions"] + ["not machine-checked: " + x for x in m.get("not_machine_checked", [])]) or "see DESIGN.md section 7",
            "technique": m.get("technique", "contract-based deductive verification of the real code: Kani/CBMC contract harnesses over fully symbolic inputs"),
        })
    else:
        na.append({"property_id": p, "reason": O.NOT_APPLICABLE.get(p, "check under construction; not yet claimed")})
man = {
    "version": 1,
    "setup_cmd": "./verify setup",
    "hooks": {
        "guard": "kani",
        "enable": "no file of /repo carries verification hooks; every check copies /repo's working tree to a scratch dir and appends "
                  "`#[cfg(any(kani, verif_replay))]` child-module lines and verbatim slices there (tools/gen_tree.py)",
        "baseline_off_cmd": "cd /repo && cargo test --workspace --no-fail-fast --offline",
        "source_commits": [],
        "add_only": True,
    },
    "engines": [{"name": "contracts", "path": "/verif/verify", "serves_properties": [c["property_id"] for c in checks],
                 "kind_free_text": "contract harnesses (Kani 0.68 / CBMC 6.11), Verus for position.rs, SMT lemmas; native replay of counterexamples"}],
    "checks": checks,
    "not_applicable": na,
    "notes": "Exit codes of every check: 0 discharged (or masked by known_findings.txt), 1 VIOLATION line, 2 UNDECIDED (time-out, lost anchor, "
             "compile error of the generated tree) -- never an alarm. See DESIGN.md.",
}
json.dump(man, open(os.path.join(VERIF, "MANIFEST.json"), "w"), indent=1)
print("claimed:", [c["property_id"] for c in checks])
