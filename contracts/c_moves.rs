//! c_moves.rs -- contracts of attack detection and move generation (C01).
use super::*;
use super::super::*;
use crate::nd;
use crate::spec::{self, SMove};

// =================================================================================================
// O1.1  Game::is_targeted == the independent attack relation, one instance per queried square
// =================================================================================================

/// forall board, player:  g.is_targeted(sq, player) == attacked(board, sq, by the other player).
/// The caches, king cache and state are irrelevant (left arbitrary / zero).
pub fn is_targeted_contract(sq: usize) {
    let g = mk::sym_game_nocache(0);
    let player = mk::sym_player();
    let b = adapt::board_of(&g);
    let got = g.is_targeted(mk::pos_of(sq), player);
    let want = spec::attacked(&b, sq, !adapt::is_white(player));
    #[cfg(not(kani))]
    eprintln!("board: {}  square {} player {:?}: engine {} spec {}", adapt::show_view(&adapt::view_of(&g)), sq, player, got, want);
    assert!(got == want, "C01: is_targeted disagrees with the attack relation of the rules");
    vcover!(got, "attacked case reachable");
    vcover!(!got, "not attacked case reachable");
}

// =================================================================================================
// O1.2  per-piece generation: Piece::get_moves(piece on sq) emits exactly the pseudo-legal moves from sq
// =================================================================================================

/// which generator a harness exercises; decides the shape of the probe and of the soundness test so
/// that only the relevant part of the rules enters the formula
#[derive(Clone, Copy, PartialEq, Eq)]
pub enum Gen { Piece(u8), Pawn, King }

/// Contract of Piece::get_moves for the piece standing on `sq` (of the side to move), for any board
/// and state:  with  E = the multiset of moves handed to `push`,
///   (a) soundness     every m in E: fields agree with the board, starts on sq, is a geometrically
///                     valid move of that piece (spec::pseudo for its kind; castling with `att`)
///   (b) completeness  every spec move sm from sq that is valid in that sense is in E
///                     (king steps landing next to the enemy king excepted: the generator prunes them)
///   (c) no repeats    no move is handed to `push` twice
/// `att(s)`: the attack test of the castling conditions (the oracle standing for is_targeted).
/// Checked in ONE pass through the real closure interface, against a symbolic probe move.
pub fn generation_contract<F: Fn(usize) -> bool + Copy>(g: &Game, sq: usize, gen: Gen, att: F) {
    let v = adapt::view_of(g);
    let w = v.white_to_move;
    let piece = g.board[sq].unwrap();
    let probe = match gen {
        Gen::Piece(_) => SMove::Normal { from: sq, to: mk::sym_sq() },
        Gen::Pawn => match nd::u8_in(0, 2) {
            0 => SMove::Normal { from: sq, to: mk::sym_sq() },
            1 => SMove::Promo { from: sq, to: mk::sym_sq(), kind: nd::u8_in(2, 5) },
            _ => SMove::EnPassant { from: sq, to: mk::sym_sq() },
        },
        Gen::King => match nd::u8_in(0, 2) {
            0 => SMove::Normal { from: sq, to: mk::sym_sq() },
            1 => SMove::CastleShort,
            _ => SMove::CastleLong,
        },
    };
    let valid = |sm: SMove| -> bool {
        match gen {
            Gen::Piece(k) => match sm { SMove::Normal { from, to } => from == sq && spec::piece_move_ok(&v, from, to, k), _ => false },
            Gen::Pawn => match sm {
                SMove::Normal { from, to } => from == sq && to < 64 && from != to && !spec::owned_by(v.board[to], w) && spec::pawn_normal_ok(&v, from, to),
                SMove::Promo { from, .. } | SMove::EnPassant { from, .. } => from == sq && spec::pseudo_simple(&v, sm),
                _ => false,
            },
            Gen::King => match sm {
                SMove::Normal { from, to } => from == sq && spec::piece_move_ok(&v, from, to, spec::K),
                SMove::CastleShort => spec::castle_ok(&v, true, att),
                SMove::CastleLong => spec::castle_ok(&v, false, att),
                _ => false,
            },
        }
    };
    let mut hits: u8 = 0;
    let mut unsound = false;
    {
        let push = |m: Move| {
            let sm = adapt::smove_of(&m);
            if !(adapt::fields_consistent(&v.board, w, &m) && valid(sm)) { unsound = true; }
            if sm == probe && hits < 3 { hits += 1; }
        };
        piece.get_moves(push, g, mk::pos_of(sq));
    }
    assert!(!unsound, "C01: the generator emitted a move that is not a geometrically valid move of that piece");
    assert!(hits <= 1, "C01: the generator emitted a move twice");
    if valid(probe) {
        let pruned_king_step = match probe {
            SMove::Normal { to, .. } if gen == Gen::King => {
                let ek = adapt::sq(g.king_positions[if w { 1 } else { 0 }]);
                (spec::rank(to) - spec::rank(ek)).abs() <= 1 && (spec::file(to) - spec::file(ek)).abs() <= 1
            }
            _ => false,
        };
        if !pruned_king_step {
            assert!(hits == 1, "C01: a geometrically valid move of that piece is missing from the generated list");
        }
    }
    vcover!(hits == 1, "a generated move matches the probe");
}

/// harness body: piece of kind `kind` (of the side to move) on `sq`, everything else symbolic.
/// The piece is WRITTEN onto the symbolic board with a concrete kind, so that symbolic execution
/// follows only that kind's generator (an assumption would leave all six generators in the formula).
pub fn generation_for_kind(kind: u8, sq: usize) {
    let mut g = mk::sym_game_nocache(0);
    g.board[sq] = Some(Piece { piece_type: adapt::type_of(kind), owner: g.current_player });
    let v = adapt::view_of(&g);
    nd::assume(v.ep <= 8);
    generation_contract(&g, sq, if kind == spec::P { Gen::Pawn } else { Gen::Piece(kind) }, |_s| false);
}

pub fn gen_knight_contract() { generation_for_kind(spec::N, mk::sym_sq()) }
pub fn gen_pawn_contract() {
    let sq = mk::sym_sq();
    nd::assume(sq >= 8 && sq < 56);          // WF8: no pawn on the first or last rank
    generation_for_kind(spec::P, sq)
}
pub fn gen_slider_contract(kind: u8, sq: usize) { generation_for_kind(kind, sq) }
/// all 64 squares: the FEN reader accepts pawns on the first / last rank, and the generator's unchecked
/// steps must stay on the board there too (C15); the rules give such a pawn no forward moves
pub fn gen_pawn_at(sq: usize) { generation_for_kind(spec::P, sq) }

// ---- king: is_targeted replaced by an oracle (its own contract is O1.1) ----------------------------
#[cfg(kani)]
static mut ATT_ORACLE: [bool; 64] = [false; 64];
#[cfg(kani)]
static mut ATT_WRONG_PLAYER: bool = false;
#[cfg(kani)]
pub fn is_targeted_oracle(g: &Game, position: Position, player: Player) -> bool {
    unsafe {
        if player != g.current_player { ATT_WRONG_PLAYER = true; }
        ATT_ORACLE[adapt::sq(position)]
    }
}

/// King generation (steps + both castlings) against the contract of is_targeted: the castling
/// conditions must use the answers for e, f, g (short) resp. e, d, c (long) -- not b -- asked for the
/// mover; WF1 (king cache of the enemy) is assumed for the pruning of steps next to the enemy king.
#[cfg(kani)]
pub fn gen_king_contract(sq: usize) {
    let mut g = mk::sym_game_nocache(0);
    g.board[sq] = Some(Piece { piece_type: PieceType::King, owner: g.current_player });
    let v = adapt::view_of(&g);
    nd::assume(v.ep <= 8);
    // WF1: enemy king cache points at the enemy king; WF6: a right implies king on its home square
    nd::assume(king_cache_ok(&g, !v.white_to_move));
    nd::assume(wf6(&v));
    nd::assume(spec::count(&v.board, spec::code(spec::K, v.white_to_move)) == 1);
    let oracle: [bool; 64] = mk::sym_bools64();
    unsafe { ATT_ORACLE = oracle; ATT_WRONG_PLAYER = false; }
    generation_contract(&g, sq, Gen::King, |s| oracle[s]);
    assert!(unsafe { !ATT_WRONG_PLAYER }, "C01: castling asks is_targeted about the wrong player");
}

// =================================================================================================
// O1.3  generation-loop body (slice verif_gen_body) against the contract of Piece::get_moves
// =================================================================================================
#[cfg(kani)]
static mut GEN_CALLS: u8 = 0;
#[cfg(kani)]
static mut GEN_ARGS_OK: bool = true;
#[cfg(kani)]
static mut GEN_EXPECT: (usize, u8) = (0, 0);
#[cfg(kani)]
pub fn get_moves_recorder(pc: Piece, _push: impl FnMut(Move), g: &Game, pos: Position) {
    unsafe {
        GEN_CALLS += 1;
        if adapt::sq(pos) != GEN_EXPECT.0 || adapt::code_of(Some(pc)) != GEN_EXPECT.1 || adapt::code_of(g.board[GEN_EXPECT.0]) != GEN_EXPECT.1 { GEN_ARGS_OK = false; }
    }
}
/// for every square: Piece::get_moves is called exactly once, with the piece standing there, that
/// square and this game, iff the square holds a piece of the side to move; otherwise not at all.
#[cfg(kani)]
pub fn gen_body_contract() {
    let mut g = mk::sym_game_nocache(0);
    let (row, col) = (nd::i8_in(0, 7), nd::i8_in(0, 7));
    let sq = (row as usize) * 8 + col as usize;
    let c = adapt::code_of(g.board[sq]);
    let w = adapt::is_white(g.current_player);
    unsafe { GEN_CALLS = 0; GEN_ARGS_OK = true; GEN_EXPECT = (sq, c); }
    g.verif_gen_body(row, col, |_m| {});
    let calls = unsafe { GEN_CALLS };
    assert!(calls == (if spec::owned_by(c, w) { 1 } else { 0 }), "C01: generation loop body does not call the piece generator exactly for own pieces");
    assert!(unsafe { GEN_ARGS_OK }, "C01: generation loop body passes the wrong piece / square to the piece generator");
    vcover!(calls == 1, "own piece reachable");
}

// =================================================================================================
// O1.4a  legality-filter loop body (slice verif_filter_body) against the contracts of push / is_targeted / pop
// =================================================================================================
#[cfg(kani)]
pub mod filt {
    use super::*;
    pub static mut N_PUSH: u8 = 0;
    pub static mut N_POP: u8 = 0;
    pub static mut N_ASK: u8 = 0;
    pub static mut ORDER_OK: bool = true;
    pub static mut ARGS_OK: bool = true;
    pub static mut THE_MOVE: Option<Move> = None;
    pub static mut KING_AFTER: usize = 0;
    pub static mut KING_BEFORE: usize = 0;
    pub static mut PLAYER_WHITE: bool = true;
    pub static mut ANSWER: bool = false;
    /// abstract push: only what a caller may rely on -- the mover's king cache afterwards holds the
    /// king's square after the move (an arbitrary square here)
    pub fn push(g: &mut Game, m: Move) {
        unsafe {
            if N_PUSH != 0 || N_ASK != 0 || N_POP != 0 { ORDER_OK = false; }
            N_PUSH += 1;
            if Some(m) != THE_MOVE { ARGS_OK = false; }
            g.king_positions[if PLAYER_WHITE { 0 } else { 1 }] = mk::pos_of(KING_AFTER);
        }
    }
    pub fn is_targeted(_g: &Game, position: Position, player: Player) -> bool {
        unsafe {
            if N_PUSH != 1 || N_POP != 0 { ORDER_OK = false; }
            N_ASK += 1;
            if adapt::sq(position) != KING_AFTER || adapt::is_white(player) != PLAYER_WHITE { ARGS_OK = false; }
            ANSWER
        }
    }
    pub fn pop(g: &mut Game, m: Move) {
        unsafe {
            if N_PUSH != 1 || N_ASK != 1 || N_POP != 0 { ORDER_OK = false; }
            N_POP += 1;
            if Some(m) != THE_MOVE { ARGS_OK = false; }
            g.king_positions[if PLAYER_WHITE { 0 } else { 1 }] = mk::pos_of(KING_BEFORE);
        }
    }
}

/// One step of the legality filter, for any candidate move, any king square, in check or not:
///   * shortcut (not in check, Normal move, start not on the king's row / column / diagonal): kept, no call;
///   * otherwise exactly push(m); is_targeted(king square as cached after the push, mover); pop(m) in
///     this order with these arguments, and m is kept iff the answer was `not attacked`;
///   * kept moves are written at keep_index, which advances by one; nothing else in the list changes.
#[cfg(kani)]
pub fn filter_body_contract() {
    let mut g = mk::sym_game_nocache(0);
    let kind = nd::u8_in(0, 4);
    let m = sym_move(kind);
    let index = nd::usize_below(4);
    let keep = nd::usize_below(4);
    nd::assume(keep <= index);
    let mut moves: ArrayVec<Move, 256> = ArrayVec::new();
    let filler = Move::CastlingShort { owner: Player::White };
    moves.push(filler); moves.push(filler); moves.push(filler); moves.push(filler);
    moves[index] = m;
    let in_check = nd::bool();
    let player = g.current_player;
    let pw = adapt::is_white(player);
    let king_position = g.king_positions[if pw { 0 } else { 1 }];
    unsafe {
        filt::N_PUSH = 0; filt::N_POP = 0; filt::N_ASK = 0; filt::ORDER_OK = true; filt::ARGS_OK = true;
        filt::THE_MOVE = Some(m); filt::KING_AFTER = mk::sym_sq(); filt::KING_BEFORE = adapt::sq(king_position);
        filt::PLAYER_WHITE = pw; filt::ANSWER = nd::bool();
    }
    let k2 = g.verif_filter_body(&mut moves, index, keep, in_check, king_position, player);
    let shortcut = !in_check && match m {
        Move::Normal { start, .. } => {
            let (dc, dr) = (start.col() - king_position.col(), start.row() - king_position.row());
            dc != 0 && dr != 0 && dc.abs() != dr.abs()
        }
        _ => false,
    };
    let (np, na, nq, order_ok, args_ok, answer) = unsafe { (filt::N_PUSH, filt::N_ASK, filt::N_POP, filt::ORDER_OK, filt::ARGS_OK, filt::ANSWER) };
    if shortcut {
        assert!(np == 0 && na == 0 && nq == 0, "C01: shortcut case still plays the move");
        assert!(k2 == keep + 1 && moves[keep] == m, "C01: shortcut case does not keep the move");
    } else {
        assert!(np == 1 && na == 1 && nq == 1 && order_ok, "C01/C03: filter step is not push; is_targeted; pop (each exactly once, in this order)");
        assert!(args_ok, "C01/C03: filter step pushes/pops a different move or asks about the wrong square / player");
        if answer { assert!(k2 == keep, "C01: a move leaving the king attacked is kept"); }
        else { assert!(k2 == keep + 1 && moves[keep] == m, "C01: a move leaving the king safe is dropped"); }
    }
    assert!(moves.len() == 4, "C01: filter step changes the length of the list");
    // frame (what makes the step contract an induction step for the whole loop): no entry other than the slot a kept
    // move is copied to changes -- neither the candidates already kept (below keep_index) nor the ones not yet examined
    let j = nd::usize_below(4);
    let before_j = if j == index { m } else { filler };
    if !(k2 == keep + 1 && j == keep) {
        assert!(moves[j] == before_j, "C01: filter step disturbs a candidate other than the slot it compacts into");
    }
    vcover!(shortcut, "shortcut reachable");
    vcover!(!shortcut && !answer && kind == 2, "kept en passant reachable");
}

// =================================================================================================
// O1.4b  shortcut lemma (pure rules of chess, no engine code): a pseudo-legal non-king Normal move
// from a square that shares no rank, file or diagonal with the own king cannot expose that king
// =================================================================================================
pub fn shortcut_lemma(k: usize) {
    let b: spec::Board = mk::sym_codes64();
    let w = nd::bool();
    let v = spec::View { board: b, white_to_move: w, castle: [false; 4], ep: 8 };
    let (from, to) = (mk::sym_sq(), mk::sym_sq());
    let m = SMove::Normal { from, to };
    nd::assume(b[k] == spec::code(spec::K, w));
    nd::assume(spec::pseudo(&v, m));
    let (dr, dc) = (spec::rank(from) - spec::rank(k), spec::file(from) - spec::file(k));
    nd::assume(dr != 0 && dc != 0 && dr.abs() != dc.abs());
    nd::assume(!spec::attacked(&b, k, !w));
    let n = spec::apply(&v, m);
    assert!(!spec::attacked(&n.board, k, !w), "C01: shortcut lemma fails: a non-aligned move exposed the king");
    vcover!(b[to] != 0, "capture case reachable");
}

// =================================================================================================
// glue of get_moves (loop headers, clear, king-missing exit, keep_index compaction, truncate):
// NOT machine-checked.  A native differential TEST of the whole function against spec::legal on the
// test suite's six perft roots to depth 2 (reported as a test, never under `discharged`).
// =================================================================================================
#[cfg(not(kani))]
fn spec_legal_moves(v: &spec::View) -> Vec<SMove> {
    let mut out = Vec::new();
    for from in 0..64 {
        for to in 0..64 {
            let cands = [SMove::Normal { from, to }, SMove::EnPassant { from, to },
                         SMove::Promo { from, to, kind: spec::N }, SMove::Promo { from, to, kind: spec::B },
                         SMove::Promo { from, to, kind: spec::R }, SMove::Promo { from, to, kind: spec::Q }];
            for m in cands { if spec::legal(v, m) { out.push(m); } }
        }
    }
    for m in [SMove::CastleShort, SMove::CastleLong] { if spec::legal(v, m) { out.push(m); } }
    out
}
#[cfg(not(kani))]
fn differential(g: &mut Game, depth: u32, nodes: &mut u64) {
    let v = adapt::view_of(g);
    let mut moves = ArrayVec::new();
    g.get_moves(&mut moves, true);
    let got: Vec<SMove> = moves.iter().map(adapt::smove_of).collect();
    let want = spec_legal_moves(&v);
    for m in &got { assert!(want.contains(m), "C01 (test): engine offers a move that is not legal in {}", adapt::show_view(&v)); }
    for m in &want { assert!(got.contains(m), "C01 (test): a legal move is missing in {}", adapt::show_view(&v)); }
    assert!(got.len() == want.len(), "C01 (test): a move is repeated in {}", adapt::show_view(&v));
    for m in moves.iter() { assert!(adapt::fields_consistent(&v.board, v.white_to_move, m), "C01 (test): inconsistent move fields"); }
    let mut unchecked = ArrayVec::new();
    g.get_moves(&mut unchecked, false);
    for m in moves.iter() { assert!(unchecked.contains(m), "C01 (test): checked list is not a subset of the unchecked list"); }
    *nodes += 1;
    if depth == 0 { return; }
    for m in moves.iter() {
        g.push(*m);
        // C02 (test): successor equals spec::apply
        let n = spec::apply(&v, adapt::smove_of(m));
        assert!(adapt::view_of(g) == n, "C02 (test): successor differs from the rules after {} in {}", adapt::show_move(m), adapt::show_view(&v));
        differential(g, depth - 1, nodes);
        g.pop(*m);
    }
}
#[cfg_attr(verif_replay, test)]
#[cfg(not(kani))]
pub fn native_get_moves_matches_spec() {
    let roots = ["rnbqkbnr/pppppppp/8/8/8/8/PPPPPPPP/RNBQKBNR w KQkq - 0 1",
                 "r3k2r/p1ppqpb1/bn2pnp1/3PN3/1p2P3/2N2Q1p/PPPBBPPP/R3K2R w KQkq -",
                 "8/2p5/3p4/KP5r/1R3p1k/8/4P1P1/8 w - - ",
                 "r3k2r/Pppp1ppp/1b3nbN/nP6/BBP1P3/q4N2/Pp1P2PP/R2Q1RK1 w kq - 0",
                 "rnbq1k1r/pp1Pbppp/2p5/8/2B5/8/PPP1NnPP/RNBQK2R w KQ - 1 8",
                 "r4rk1/1pp1qppp/p1np1n2/2b1p1B1/2B1P1b1/P1NP1N2/1PP1QPPP/R4RK1 w - - 0 10"];
    let mut nodes = 0u64;
    for fen in roots {
        let mut g = Game::new(fen).unwrap();
        differential(&mut g, 2, &mut nodes);
    }
    eprintln!("native differential: {} positions compared", nodes);
}

// =================================================================================================
// the two loops of get_moves as whole blocks (slices verif_gen_block / verif_filter_block)
// =================================================================================================
#[cfg(kani)]
pub mod genblk {
    use super::*;
    pub static mut MASK: u64 = 0;
    pub static mut DUP: bool = false;
    pub static mut ARGS_OK: bool = true;
    pub fn get_moves_recorder(pc: Piece, _push: impl FnMut(Move), g: &Game, pos: Position) {
        unsafe {
            let s = adapt::sq(pos);
            if MASK & (1u64 << s) != 0 { DUP = true; }
            MASK |= 1u64 << s;
            if g.board[s] != Some(pc) { ARGS_OK = false; }
        }
    }
}
/// The generation loop (both `for` headers included) calls Piece::get_moves exactly once for every
/// square holding a piece of the side to move -- with that piece, that square, this game -- and for
/// no other square.  Complete: 8 x 8 iterations, symbolic board.
#[cfg(kani)]
pub fn gen_block_contract() {
    let mut g = mk::sym_game_nocache(0);
    let w = adapt::is_white(g.current_player);
    let b = adapt::board_of(&g);
    unsafe { genblk::MASK = 0; genblk::DUP = false; genblk::ARGS_OK = true; }
    g.verif_gen_block(|_m| {});
    let mut want: u64 = 0;
    let mut r = 0;
    while r < 8 {
        let mut f = 0;
        while f < 8 { if spec::owned_by(b[r * 8 + f], w) { want |= 1u64 << (r * 8 + f); } f += 1; }
        r += 1;
    }
    let (mask, dup, args_ok) = unsafe { (genblk::MASK, genblk::DUP, genblk::ARGS_OK) };
    assert!(mask == want, "C01: the generation loop skips a square holding an own piece, or generates for a square that holds none");
    assert!(!dup, "C01: the generation loop visits a square twice");
    assert!(args_ok, "C01: the generation loop passes the wrong piece to the piece generator");
    vcover!(want.count_ones() >= 2, "several own pieces reachable");
}

#[cfg(kani)]
pub mod fblk {
    use super::*;
    pub static mut ANS: [bool; 4] = [false; 4];
    pub static mut ASKED: usize = 0;
    pub static mut BALANCE: i8 = 0;
    pub static mut BAD: bool = false;
    pub static mut FIRST_ASK_OK: bool = true;
    pub fn push(_g: &mut Game, _m: Move) { unsafe { BALANCE += 1; if BALANCE != 1 { BAD = true; } } }
    pub fn pop(_g: &mut Game, _m: Move) { unsafe { BALANCE -= 1; if BALANCE != 0 { BAD = true; } } }
    pub fn is_targeted(g: &Game, p: Position, pl: Player) -> bool {
        unsafe {
            // the question asked before the loop: is the mover's king (as cached) attacked, asked for the mover
            if ASKED == 0 && BALANCE == 0 && (pl != g.current_player || p != g.king_positions[if adapt::is_white(pl) { 0 } else { 1 }]) { FIRST_ASK_OK = false; }
            let a = if ASKED < 4 { ANS[ASKED] } else { BAD = true; false };
            ASKED += 1;
            a
        }
    }
}
/// The whole legality-filter block (prologue, loop header, body, keep_index compaction, truncate) on a
/// list of THREE arbitrary candidate moves, against abstract push / is_targeted / pop with arbitrary
/// answers: the resulting list is exactly the sub-multiset of candidates that the body contract keeps
/// (shortcut, or `not attacked` answered), pushes and pops alternate, and with verify_king == false the
/// list is untouched.  BOUNDED in the list length (3); the per-step contract (filter_body) is unbounded.
#[cfg(kani)]
pub fn filter_block_contract() {
    let mut g = mk::sym_game_nocache(0);
    let verify_king = nd::bool();
    let ms = [sym_move(nd::u8_in(0, 4)), sym_move(nd::u8_in(0, 4)), sym_move(nd::u8_in(0, 4))];
    let mut moves: ArrayVec<Move, 256> = ArrayVec::new();
    moves.push(ms[0]); moves.push(ms[1]); moves.push(ms[2]);
    let ans = [nd::bool(), nd::bool(), nd::bool(), nd::bool()];
    unsafe { fblk::ANS = ans; fblk::ASKED = 0; fblk::BALANCE = 0; fblk::BAD = false; fblk::FIRST_ASK_OK = true; }
    let player = g.current_player;
    let kp = g.king_positions[if adapt::is_white(player) { 0 } else { 1 }];
    g.verif_filter_block(&mut moves, verify_king);
    assert!(unsafe { fblk::FIRST_ASK_OK }, "C01: the in-check test before the filter loop asks about the wrong square or the wrong player");
    // what the step contract prescribes, replayed on the abstract answers
    let mut keep = [true; 3];
    if verify_king {
        let in_check = ans[0];
        let mut asked = 1;
        let mut i = 0;
        while i < 3 {
            let shortcut = !in_check && match ms[i] {
                Move::Normal { start, .. } => { let (dc, dr) = (start.col() - kp.col(), start.row() - kp.row()); dc != 0 && dr != 0 && dc.abs() != dr.abs() }
                _ => false,
            };
            if !shortcut { keep[i] = !ans[asked]; asked += 1; }
            i += 1;
        }
    }
    let count_in = |m: Move, only_kept: bool| { let mut n = 0; let mut i = 0; while i < 3 { if ms[i] == m && (!only_kept || keep[i]) { n += 1; } i += 1; } n };
    let count_out = |m: Move| { let mut n = 0; let mut i = 0; while i < 3 { if i < moves.len() && moves[i] == m { n += 1; } i += 1; } n };
    let want_len = keep[0] as usize + keep[1] as usize + keep[2] as usize;
    assert!(moves.len() == want_len, "C01: the filter keeps a different number of moves than its step contract prescribes");
    assert!(count_out(ms[0]) == count_in(ms[0], true) && count_out(ms[1]) == count_in(ms[1], true) && count_out(ms[2]) == count_in(ms[2], true),
            "C01: the filtered list is not the sub-multiset of kept candidates (a move lost, duplicated or replaced during compaction)");
    assert!(unsafe { !fblk::BAD && fblk::BALANCE == 0 }, "C03: pushes and pops of the filter are not strictly paired");
    vcover!(verify_king && want_len == 2, "dropping the middle move reachable");
    vcover!(!verify_king, "unchecked mode reachable");
}

/// prologue of get_moves (slice verif_get_moves_prologue): the output list is emptied, and generation
/// goes on iff the mover's cached king square holds a king (a position whose king was captured in the
/// search has no moves)
pub fn get_moves_prologue_contract() {
    let mut g = mk::sym_game_nocache(0);
    let mut moves: ArrayVec<Move, 256> = ArrayVec::new();
    let filler = Move::CastlingShort { owner: Player::White };
    let n = nd::usize_below(3);
    let mut i = 0;
    while i < n { moves.push(filler); i += 1; }
    let w = adapt::is_white(g.current_player);
    let ks = adapt::sq(g.king_positions[if w { 0 } else { 1 }]);
    let king_there = spec::kind(adapt::code_of(g.board[ks])) == spec::K;
    let mut went_on = false;
    g.verif_get_moves_prologue(&mut moves, &mut went_on);
    assert!(moves.is_empty(), "C01: get_moves does not start from an empty list (stale moves of a previous call survive)");
    assert!(went_on == king_there, "C01: get_moves' king-missing exit does not match the board");
    vcover!(!went_on && n == 2, "king-missing exit with a stale list reachable");
}

// =================================================================================================
// rules-only lemmas closing the induction over WF (no engine code)
// =================================================================================================

/// WF9 => push's "no king is captured" precondition: if a geometrically valid move of the side to move
/// lands on the square `k` of the enemy king, then that king is attacked -- so in a position where the
/// side NOT to move is not in check no generated move captures a king.
pub fn king_capture_lemma(k: usize) {
    let b: spec::Board = mk::sym_codes64();
    let w = nd::bool();
    let v = spec::View { board: b, white_to_move: w, castle: [false; 4], ep: 8 };
    nd::assume(b[k] == spec::code(spec::K, !w));
    let from = mk::sym_sq();
    let m = match nd::u8_in(0, 1) { 0 => SMove::Normal { from, to: k }, _ => SMove::Promo { from, to: k, kind: nd::u8_in(2, 5) } };
    nd::assume(spec::pseudo_simple(&v, m));
    assert!(spec::attacked(&b, k, w), "rules: a valid move onto the enemy king's square exists although that king is not attacked");
    vcover!(spec::kind(b[from]) == spec::P, "pawn capturing towards the king reachable");
}

/// WF7 is established by the rules' successor: after any valid move, if an e.p. file is recorded then the
/// pawn that just made the double step stands on it (4th/5th rank), the square it skipped is empty, and
/// it belongs to the side that just moved; after every other move no e.p. file is recorded.
pub fn ep_invariant_lemma() {
    let b: spec::Board = mk::sym_codes64();
    let w = nd::bool();
    let v = spec::View { board: b, white_to_move: w, castle: [false; 4], ep: nd::u8_in(0, 8) };
    let m = match nd::u8_in(0, 2) {
        0 => SMove::Normal { from: mk::sym_sq(), to: mk::sym_sq() },
        1 => SMove::Promo { from: mk::sym_sq(), to: mk::sym_sq(), kind: nd::u8_in(2, 5) },
        _ => SMove::EnPassant { from: mk::sym_sq(), to: mk::sym_sq() },
    };
    nd::assume(spec::pseudo_simple(&v, m));
    let n = spec::apply(&v, m);
    if n.ep < 8 {
        let f = n.ep as usize;
        let (pawn_sq, skipped) = if w { (3 * 8 + f, 2 * 8 + f) } else { (4 * 8 + f, 5 * 8 + f) };
        assert!(n.board[pawn_sq] == spec::code(spec::P, w) && n.board[skipped] == spec::EMPTY,
                "rules: an e.p. file is recorded without the double-stepped pawn on it / with the skipped square occupied");
        assert!(matches!(m, SMove::Normal { .. }), "rules: an e.p. file is recorded after a move that is not a pawn double step");
    }
    vcover!(n.ep < 8, "recorded e.p. file reachable");
}

/// WHOLE Game::get_moves (no slice) against abstract callees -- the frame half of "asking for the move
/// list never alters any observable" (C03): with the piece generator emitting nothing, whatever
/// is_targeted answers and in both modes, every field of the game (board, caches, hash, score, side,
/// king cache, state stack) is exactly as before and the list is empty.  Statements of get_moves that
/// lie BETWEEN the sliced regions are executed here too.
#[cfg(kani)]
pub fn get_moves_frame_contract() {
    let mut g = mk::sym_game(1, nd::bool());
    let verify_king = nd::bool();
    let j = mk::sym_sq();
    let mut moves: ArrayVec<Move, 256> = ArrayVec::new();
    let ans = [nd::bool(), nd::bool(), nd::bool(), nd::bool()];
    unsafe { fblk::ANS = ans; fblk::ASKED = 0; fblk::BALANCE = 0; fblk::BAD = false; fblk::FIRST_ASK_OK = true; genblk::MASK = 0; genblk::DUP = false; genblk::ARGS_OK = true; }
    let (hash0, score0, side0, kp0, len0) = (g.hash, g.score, g.current_player, g.king_positions, g.state.len());
    let (bj, phj, psj) = (g.board[j], g.past_hashes[j], g.past_scores[j]);
    let (top0, below0) = (gs_bits(&g), super::super::gamestate::verif_gamestate::bits(g.state[0]));
    g.get_moves(&mut moves, verify_king);
    assert!(moves.is_empty(), "get_moves produced moves although the piece generator emitted none");
    assert!(g.hash == hash0 && g.score == score0 && g.current_player == side0 && g.king_positions == kp0, "C03: asking for the move list changed hash / score / side / king cache");
    assert!(g.state.len() == len0 && gs_bits(&g) == top0 && super::super::gamestate::verif_gamestate::bits(g.state[0]) == below0,
            "C03: asking for the move list changed the castling / en-passant state of the game");
    assert!(g.board[j] == bj && g.past_hashes[j] == phj && g.past_scores[j] == psj, "C03: asking for the move list changed the board or a cached square value");
    assert!(unsafe { fblk::BALANCE == 0 && !fblk::BAD }, "C03: get_moves left a move played");
    vcover!(verify_king, "checked mode reachable");
}

/// C15, king generation on ANY board the FEN reader can produce: no WF6 here (the reader takes the
/// castling field at face value, so a right may be held by a king that is not on e1/e8) -- only the
/// engine's own safety obligations are checked: every square computed stays on the board, every unchecked
/// index is in range (Position debug assertions, Kani's pointer checks).
#[cfg(kani)]
pub fn gen_king_safety(sq: usize) {
    let mut g = mk::sym_game_nocache(0);
    g.board[sq] = Some(Piece { piece_type: PieceType::King, owner: g.current_player });
    let v = adapt::view_of(&g);
    nd::assume(v.ep <= 8);
    let oracle: [bool; 64] = mk::sym_bools64();
    unsafe { ATT_ORACLE = oracle; ATT_WRONG_PLAYER = false; }
    let mut n: u8 = 0;
    g.board[sq].unwrap().get_moves(|_m| { if n < 200 { n += 1; } }, &g, mk::pos_of(sq));
    vcover!(n >= 1, "a king move reachable");
}

/// C15 / C01 (slice verif_push_closure: the closure `get_moves` hands to the generators, verbatim).
/// Assumption A6 says a position offers fewer than 256 candidates; for EVERY list length A6 allows
/// (0..=255) the unchecked push stays inside the buffer (arrayvec's capacity assertion and CBMC's
/// pointer checks), appends exactly the candidate and leaves the earlier entries alone.  The buffer
/// type is the one in get_moves' signature, so a smaller buffer fails here.
#[cfg_attr(kani, kani::proof)]
#[cfg_attr(verif_replay, test)]
pub fn push_closure_contract() {
    let mut moves: ArrayVec<Move, 256> = ArrayVec::new();
    let cap = moves.capacity();
    let n = nd::usize_below(256);
    let k = nd::usize_below(256);
    let witness = sym_move(nd::u8_in(0, 4));
    let cand = sym_move(nd::u8_in(0, 4));
    #[cfg(not(kani))]
    eprintln!("move buffer of capacity {} holding {} candidates; one more is pushed", cap, n);
    assert!(n < cap, "C15: the move buffer is smaller than the 256 slots the candidate bound (A6) needs: unchecked push out of range");
    unsafe {
        // only the slots that are read back are initialised (slot k here, slot n by the push)
        moves.set_len(n);
        if k < n { moves.as_mut_ptr().add(k).write(witness); }
    }
    Game::verif_push_closure(&mut moves, cand);
    assert!(moves.len() == n + 1, "C01: the push closure does not add exactly one candidate");
    assert!(moves[n] == cand, "C01: the push closure stores another move than the one generated");
    if k < n { assert!(moves[k] == witness, "C01: the push closure disturbs an earlier candidate"); }
    vcover!(n == 255, "list of 255 candidates (A6's bound) reachable");
    vcover!(n == 0, "empty list reachable");
}
