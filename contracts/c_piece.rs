//! c_piece.rs -- child module of `chess::piece`: contracts of the per-piece leaf functions.
use super::*;
use crate::chess::verif_chess::{adapt, mk};
use crate::nd;
use crate::spec;

/// C16/C15: Piece::score == the piece-square value the spec assigns (table of the piece's kind,
/// rank flipped for White, negated for Black), for all 12 pieces x 64 squares x both king tables;
/// the unchecked table read and Position::new_unsafe's debug assertion stay in range.
#[cfg_attr(kani, kani::proof)]
#[cfg_attr(verif_replay, test)]
pub fn piece_score_is_table_value() {
    let eg = nd::bool();
    let pc = mk::sym_piece();
    let s = mk::sym_sq();
    let tables = mk::tables(eg);
    let got = pc.score(mk::pos_of(s), &tables);
    assert!(got == adapt::want_score(s, adapt::code_of(Some(pc)), eg), "C16: Piece::score differs from the specified piece-square value");
    vcover!(pc.piece_type == PieceType::King && eg && pc.owner == Player::Black, "black king in the endgame reachable");
}

/// C16: the colour-mirrored piece on the mirrored square has exactly the negated value
#[cfg_attr(kani, kani::proof)]
#[cfg_attr(verif_replay, test)]
pub fn piece_score_mirror_negates() {
    let eg = nd::bool();
    let pc = mk::sym_piece();
    let s = mk::sym_sq();
    let tables = mk::tables(eg);
    let mirrored = Piece { piece_type: pc.piece_type, owner: pc.owner.the_other() };
    let a = pc.score(mk::pos_of(s), &tables);
    let b = mirrored.score(mk::pos_of(spec::mirror_sq(s)), &tables);
    assert!(a as i32 == -(b as i32), "C16: mirrored piece does not have the negated score");
    vcover!(a > 0, "positive value reachable");
}

/// C04/C15: Piece::as_index in 0..12 with the published order (Q R B N P K, +6 for Black);
/// Piece::hash == published key for (square, piece); unchecked reads in bounds.
#[cfg_attr(kani, kani::proof)]
#[cfg_attr(verif_replay, test)]
pub fn piece_hash_is_published_key() {
    let pc = mk::sym_piece();
    let s = mk::sym_sq();
    let idx = pc.as_index();
    let want_idx = match pc.piece_type {
        PieceType::Queen => 0, PieceType::Rook => 1, PieceType::Bishop => 2, PieceType::Knight => 3, PieceType::Pawn => 4, PieceType::King => 5,
    } + if pc.owner == Player::Black { 6 } else { 0 };
    assert!(idx < 12 && idx == want_idx, "C04: Piece::as_index is not the published piece order");
    assert!(pc.hash(mk::pos_of(s)) == spec::key(s, adapt::code_of(Some(pc))), "C04: Piece::hash differs from the published key of (square, piece)");
    assert!(pc.hash(mk::pos_of(s)) == spec::piece_key_at(s, want_idx), "C04: Piece::hash is not the key at offset 259 + 8*(12*sq + piece)");
    vcover!(s == 63 && idx == 11, "last key reachable");
}

/// C11/C17: FEN letters: as_char_ascii is the standard letter, from_char_ascii inverts it, and
/// from_char_ascii accepts exactly the 12 piece letters among ALL chars.
#[cfg_attr(kani, kani::proof)]
#[cfg_attr(verif_replay, test)]
pub fn piece_letters_roundtrip() {
    let pc = mk::sym_piece();
    let ch = pc.as_char_ascii();
    assert!(ch as u32 == spec::fen_letter(adapt::code_of(Some(pc))) as u32, "C11: as_char_ascii is not the FEN letter of the piece");
    assert!(Piece::from_char_ascii(ch) == Some(pc), "C11: from_char_ascii(as_char_ascii(p)) != p");
    let any = nd::char();
    match Piece::from_char_ascii(any) {
        Some(q) => assert!(q.as_char_ascii() == any, "C17: from_char_ascii accepts a character that is not a piece letter"),
        None => {}
    }
    vcover!(Piece::from_char_ascii(any).is_some(), "accepted letter reachable");
}

/// C20: the diagram glyph identifies piece and colour (12 distinct glyphs; white outlined U+2654..9,
/// black filled U+265A..F in the order K Q R B N P)
#[cfg_attr(kani, kani::proof)]
#[cfg_attr(verif_replay, test)]
pub fn piece_glyphs() {
    let pc = mk::sym_piece();
    let off = match pc.piece_type { PieceType::King => 0, PieceType::Queen => 1, PieceType::Rook => 2, PieceType::Bishop => 3, PieceType::Knight => 4, PieceType::Pawn => 5 };
    let base = if pc.owner == Player::White { 0x2654 } else { 0x265A };
    assert!(pc.as_char() as u32 == base + off, "C20: diagram glyph does not identify the piece");
    vcover!(true, "reachable");
}
