//! mk.rs -- constructors for (partly) symbolic engine values.  Lives under `chess::verif_chess`
//! so it can name Game's private fields.  No engine *function* is called to build a value except
//! `Position::new` (whose contract is proved in c_position.rs) and ArrayVec/Vec constructors.
use super::super::*;
use crate::nd;

pub fn player(white: bool) -> Player { if white { Player::White } else { Player::Black } }
pub fn is_white(p: Player) -> bool { matches!(p, Player::White) }

pub fn tables(endgame_king: bool) -> [Cell<&'static [i16; 64]>; 6] {
    [
        Cell::new(&scores::QUEEN_SCORES),
        Cell::new(&scores::ROOK_SCORES),
        Cell::new(&scores::BISHOP_SCORES),
        Cell::new(&scores::KNIGHT_SCORES),
        Cell::new(&scores::PAWN_SCORES),
        Cell::new(if endgame_king { &scores::KING_SCORES_END } else { &scores::KING_SCORES_MIDDLE }),
    ]
}

pub fn pos(row: i8, col: i8) -> Position { Position::new(row, col).unwrap() }
pub fn pos_of(sq: usize) -> Position { pos((sq / 8) as i8, (sq % 8) as i8) }

/// a game whose board is empty and whose caches are zero; only `current_player` matters
pub fn game_side_only(white: bool) -> Game {
    let mut state = ArrayVec::new();
    state.push(GameState::default());
    Game {
        score: 0,
        current_player: player(white),
        move_stack: Vec::new(),
        phase: GamePhase::Opening,
        hash: 0,
        board: [None; 64],
        past_scores: [0; 64],
        past_hashes: [0; 64],
        piece_scores: tables(false),
        king_positions: [pos(0, 4), pos(7, 4)],
        state,
    }
}
