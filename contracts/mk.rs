//! mk.rs -- constructors for (partly) symbolic engine values.  Lives under `chess::verif_chess`
//! so it can name Game's private fields.  No engine *function* is called to build a value except
//! `Position::new` (whose contract is proved in c_position.rs) and ArrayVec/Vec constructors.
use super::super::*;
use crate::nd;

pub fn player(white: bool) -> Player { if white { Player::White } else { Player::Black } }
pub fn is_white(p: Player) -> bool { matches!(p, Player::White) }

pub fn tables(endgame_king: bool) -> [Cell<&'static [i16; 64]>; 6] {
    [
        Cell::new(&scores::QUEEN_SCORES),
        Cell::new(&scores::ROOK_SCORES),
        Cell::new(&scores::BISHOP_SCORES),
        Cell::new(&scores::KNIGHT_SCORES),
        Cell::new(&scores::PAWN_SCORES),
        Cell::new(if endgame_king { &scores::KING_SCORES_END } else { &scores::KING_SCORES_MIDDLE }),
    ]
}

pub fn pos(row: i8, col: i8) -> Position { Position::new(row, col).unwrap() }
pub fn pos_of(sq: usize) -> Position { pos((sq / 8) as i8, (sq % 8) as i8) }

/// a game whose board is empty and whose caches are zero; only `current_player` matters
pub fn game_side_only(white: bool) -> Game {
    let mut state = ArrayVec::new();
    state.push(GameState::default());
    Game {
        score: 0,
        current_player: player(white),
        move_stack: Vec::new(),
        phase: GamePhase::Opening,
        hash: 0,
        board: [None; 64],
        past_scores: [0; 64],
        past_hashes: [0; 64],
        piece_scores: tables(false),
        king_positions: [pos(0, 4), pos(7, 4)],
        state,
    }
}

// ---- symbolic scalars ---------------------------------------------------------------------------
pub fn sym_code() -> u8 { let c = nd::u8(); nd::assume(crate::spec::valid_code(c)); c }
pub fn sym_piece_code() -> u8 { let c = sym_code(); nd::assume(c != 0); c }
pub fn sym_place() -> Option<Piece> { super::adapt::place_of(sym_code()) }
pub fn sym_piece() -> Piece { super::adapt::place_of(sym_piece_code()).unwrap() }
pub fn sym_sq() -> usize { nd::usize_below(64) }
pub fn sym_pos() -> Position { pos_of(sym_sq()) }
pub fn sym_player() -> Player { player(nd::bool()) }
pub fn sym_promo_type() -> PieceType {
    match nd::u8_in(0, 3) { 0 => PieceType::Queen, 1 => PieceType::Rook, 2 => PieceType::Bishop, _ => PieceType::Knight }
}

// ---- symbolic games -----------------------------------------------------------------------------
use super::super::gamestate::verif_gamestate as gs;

macro_rules! rep64 { ($e:expr) => { [$e,$e,$e,$e,$e,$e,$e,$e,$e,$e,$e,$e,$e,$e,$e,$e,$e,$e,$e,$e,$e,$e,$e,$e,$e,$e,$e,$e,$e,$e,$e,$e,$e,$e,$e,$e,$e,$e,$e,$e,$e,$e,$e,$e,$e,$e,$e,$e,$e,$e,$e,$e,$e,$e,$e,$e,$e,$e,$e,$e,$e,$e,$e,$e] } }
/// 64 independent symbolic square contents, written without a loop (no unwinding needed)
pub fn sym_board() -> [Option<Piece>; 64] { rep64!(sym_place()) }
pub fn sym_u64x64() -> [u64; 64] { rep64!(nd::u64()) }
pub fn sym_i16x64() -> [i16; 64] { rep64!(nd::i16()) }

/// state stack holding `below` arbitrary entries under a top entry with bitfield `top`
pub fn stack(below: usize, top: u8) -> ArrayVec<GameState, 512> {
    let mut st = ArrayVec::new();
    if below >= 1 { st.push(gs::mk(nd::u8())); }
    if below >= 2 { st.push(gs::mk(nd::u8())); }
    if below >= 3 { st.push(gs::mk(nd::u8())); }
    st.push(gs::mk(top));
    st
}

/// A game with every field symbolic ("lean": caches are arbitrary, NOT consistent with the board).
/// Harnesses add exactly the WF clauses their contract needs as assumptions.
pub fn sym_game(below: usize, endgame_king: bool) -> Game {
    Game {
        score: nd::i16(),
        current_player: sym_player(),
        move_stack: Vec::new(),
        phase: if endgame_king { GamePhase::Endgame } else { GamePhase::Opening },
        hash: nd::u64(),
        board: sym_board(),
        past_scores: sym_i16x64(),
        past_hashes: sym_u64x64(),
        piece_scores: tables(endgame_king),
        king_positions: [sym_pos(), sym_pos()],
        state: stack(below, nd::u8()),
    }
}

/// A game whose caches are all zero (for contracts that never read them: generation, attack detection)
pub fn sym_game_nocache(below: usize) -> Game {
    Game {
        score: 0,
        current_player: sym_player(),
        move_stack: Vec::new(),
        phase: GamePhase::Opening,
        hash: 0,
        board: sym_board(),
        past_scores: [0; 64],
        past_hashes: [0; 64],
        piece_scores: tables(false),
        king_positions: [sym_pos(), sym_pos()],
        state: stack(below, nd::u8()),
    }
}
pub fn sym_bools64() -> [bool; 64] { rep64!(nd::bool()) }
pub fn sym_codes64() -> [u8; 64] { rep64!(sym_code()) }

/// a game whose state stack holds `len` entries (1..=512); entries below the top are uninitialised
/// memory that is never read by the callers this is used for (only `len()` matters there)
pub fn game_with_len(len: usize) -> Game {
    let mut g = game_side_only(true);
    unsafe { g.state.set_len(len); }
    g
}
pub fn grow_by_one(g: &mut Game) { let n = g.state.len(); unsafe { g.state.set_len(n + 1); } }

/// like sym_game, but the state stack has a SYMBOLIC length 2..=511: the top entry and the one below it
/// are arbitrary bytes, all lower entries are whatever the (uninitialised) buffer holds
pub fn sym_game_anylen(endgame_king: bool) -> Game {
    let mut g = sym_game(0, endgame_king);
    let len = nd::u16() as usize;
    nd::assume(2 <= len && len <= 511);
    unsafe {
        g.state.set_len(len);
        g.state.as_mut_ptr().add(len - 1).write(gs::mk(nd::u8()));
        g.state.as_mut_ptr().add(len - 2).write(gs::mk(nd::u8()));
    }
    g
}
pub fn set_hash(g: &mut Game, h: u64) { g.hash = h; }
