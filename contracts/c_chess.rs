//! c_chess.rs -- child module of `chess` (sees Game's private fields).  Constructors for symbolic
//! games, the abstract view, and the harnesses for Game::* contracts.
use super::*;
use crate::nd;
use crate::spec;

#[path = "mk.rs"]
pub mod mk;
