//! c_chess.rs -- child module of `chess` (sees Game's private fields).  Constructors for symbolic
//! games (mk.rs), the adapter between engine values and the spec's encodings (adapt.rs), and the
//! harnesses for the contracts of Game::*.
use super::*;
use crate::nd;
use crate::spec;

#[path = "mk.rs"]
pub mod mk;
#[path = "adapt.rs"]
pub mod adapt;

// =================================================================================================
// Game::set_position  (C02, C03, C04, C15, C16)
// =================================================================================================

pub fn fits_i16(x: i32) -> bool { -32768 <= x && x <= 32767 }

/// WF8 => no i16 overflow of the running score: table facts.  With at most one king and 15 other
/// pieces per side (promoted pawns are worth at most a queen), any partial sum of contributions
/// stays within  max|king| + 9*maxQ + 2*maxR + 2*maxB + 2*maxN  <= 32767.
#[cfg_attr(kani, kani::proof)]
#[cfg_attr(kani, kani::unwind(65))]
#[cfg_attr(verif_replay, test)]
pub fn score_tables_bounded() {
    fn max_abs(t: &[i16; 64]) -> i32 { let mut m = 0i32; let mut i = 0; while i < 64 { let v = (t[i] as i32).abs(); if v > m { m = v; } i += 1; } m }
    let (q, r, b, n, p) = (max_abs(&scores::QUEEN_SCORES), max_abs(&scores::ROOK_SCORES), max_abs(&scores::BISHOP_SCORES),
                           max_abs(&scores::KNIGHT_SCORES), max_abs(&scores::PAWN_SCORES));
    fn min_of(t: &[i16; 64]) -> i32 { let mut m = i32::MAX; let mut i = 0; while i < 64 { if (t[i] as i32) < m { m = t[i] as i32; } i += 1; } m }
    let k = max_abs(&scores::KING_SCORES_MIDDLE).max(max_abs(&scores::KING_SCORES_END));
    let kmin = min_of(&scores::KING_SCORES_MIDDLE).min(min_of(&scores::KING_SCORES_END));
    assert!(q >= r && q >= b && q >= n && q >= p, "a promoted pawn can be worth more than a queen: bound argument breaks");
    // with both kings on the board: |score| <= (king spread) + material of one full side
    assert!((k - kmin) + 9 * q + 2 * r + 2 * b + 2 * n <= SCORE_BOUND as i32, "C16: SCORE_BOUND is not implied by the material bound");
    // transient states inside push/pop (own king and one more piece lifted) and king captures in the search
    assert!(SCORE_BOUND as i32 + q + k <= 32767, "C16: transient sums can leave i16");
}

/// Contract of Game::set_position(p, new):
///   pre   p valid; |score| <= SCORE_BOUND; past_scores[p] is a table value (|.| <= 20_100)
///   post  board' = board[p := new]
///         past_hashes' = past_hashes[p := key(p, new)],  hash'  = hash ^ past_hashes[p] ^ key(p, new)
///         past_scores' = past_scores[p := sq_score(p, new)], score' = score - past_scores[p] + sq_score(p, new)
///         frame: every other index of the three arrays, king cache, side, state stack unchanged
///   and   no overflow, every unchecked index in bounds (Kani's own checks)
#[cfg_attr(kani, kani::proof)]
#[cfg_attr(verif_replay, test)]
pub fn set_position_contract() {
    let eg = nd::bool();
    let mut g = mk::sym_game(0, eg);
    let p = mk::sym_sq();
    let j = mk::sym_sq();
    let new = mk::sym_place();
    // WF4 + WF8 (material bound, lemma score_tables_bounded + DESIGN.md 3.3): the running sum fits i16
    // before, between and after the two updates
    nd::assume(fits_i16(g.score as i32 - g.past_scores[p] as i32));
    nd::assume(fits_i16(g.score as i32 - g.past_scores[p] as i32 + adapt::want_score(p, adapt::code_of(new), eg) as i32));
    let (hash0, score0, ph0, ps0) = (g.hash, g.score, g.past_hashes[p], g.past_scores[p]);
    let (bj, phj, psj) = (g.board[j], g.past_hashes[j], g.past_scores[j]);
    let (kp0, side0, len0, top0) = (g.king_positions, g.current_player, g.state.len(), gs_bits(&g));

    g.set_position(mk::pos_of(p), new);

    let c = adapt::code_of(new);
    assert!(adapt::code_of(g.board[p]) == c, "set_position: board[p] is not the new content");
    assert!(g.past_hashes[p] == spec::key(p, c), "C04: cached key of the square is not the published key of its content");
    assert!(g.hash == hash0 ^ ph0 ^ spec::key(p, c), "C04: hash not updated by (old cached key) xor (new key)");
    assert!(g.past_scores[p] == adapt::want_score(p, c, eg), "C16: cached score of the square is not the piece-square value of its content");
    assert!(g.score as i32 == score0 as i32 - ps0 as i32 + adapt::want_score(p, c, eg) as i32, "C16: score not updated by -old +new");
    if j != p {
        assert!(g.board[j] == bj && g.past_hashes[j] == phj && g.past_scores[j] == psj, "set_position: frame violated (another square changed)");
    }
    assert!(g.king_positions == kp0 && g.current_player == side0 && g.state.len() == len0 && gs_bits(&g) == top0,
            "set_position: frame violated (king cache / side / state stack changed)");
    vcover!(j != p && new.is_some(), "placing a piece reachable");
    vcover!(new.is_none() && eg, "clearing a square in the endgame phase reachable");
}

pub fn gs_bits(g: &Game) -> u8 { super::gamestate::verif_gamestate::bits(*g.state.last().unwrap()) }

// =================================================================================================
// Game::push  (C02) -- successor position, per move kind
// =================================================================================================

/// bound on |score| that WF4 + WF8 give (lemma score_tables_bounded)
pub const SCORE_BOUND: i16 = 10_700;

/// WF6: a castling right implies king and rook on their home squares
pub fn wf6(v: &spec::View) -> bool {
    let b = &v.board;
    (!v.castle[0] || (b[spec::E1] == spec::K && b[spec::H1] == spec::R))
        && (!v.castle[1] || (b[spec::E1] == spec::K && b[spec::A1] == spec::R))
        && (!v.castle[2] || (b[spec::E8] == (spec::K | spec::BLACK) && b[spec::H8] == (spec::R | spec::BLACK)))
        && (!v.castle[3] || (b[spec::E8] == (spec::K | spec::BLACK) && b[spec::A8] == (spec::R | spec::BLACK)))
}

/// WF1 (per colour): the king cache points at a king of that colour
pub fn king_cache_ok(g: &Game, white: bool) -> bool {
    let p = g.king_positions[if white { 0 } else { 1 }];
    adapt::code_of(g.board[adapt::sq(p)]) == spec::code(spec::K, white)
}

/// WF2s / WF2h at one square
pub fn cache_ok_at(g: &Game, s: usize, eg: bool) -> bool {
    let c = adapt::code_of(g.board[s]);
    g.past_scores[s] == adapt::want_score(s, c, eg) && g.past_hashes[s] == spec::key(s, c)
}

/// squares a move touches (at most 4; unused slots repeat the first)
pub fn touched(m: &Move) -> [usize; 4] {
    match adapt::smove_of(m) {
        spec::SMove::Normal { from, to } | spec::SMove::Promo { from, to, .. } => [from, to, from, to],
        spec::SMove::EnPassant { from, to } => [from, to, (from / 8) * 8 + to % 8, from],
        spec::SMove::CastleShort => { let r = match m { Move::CastlingShort { owner } if adapt::is_white(*owner) => 0, _ => 56 }; [r + 4, r + 5, r + 6, r + 7] }
        spec::SMove::CastleLong => { let r = match m { Move::CastlingLong { owner } if adapt::is_white(*owner) => 0, _ => 56 }; [r + 4, r + 3, r + 2, r] }
    }
}

/// a symbolic engine move of the given kind (0 Normal, 1 Promotion, 2 EnPassant, 3 short, 4 long)
pub fn sym_move(kind: u8) -> Move {
    match kind {
        0 => Move::Normal { piece: mk::sym_piece(), start: mk::sym_pos(), end: mk::sym_pos(), captured_piece: mk::sym_place() },
        1 => Move::Promotion { owner: mk::sym_player(), new_piece: mk::sym_promo_type(), start: mk::sym_pos(), end: mk::sym_pos(), captured_piece: mk::sym_place() },
        2 => Move::EnPassant { owner: mk::sym_player(), start_col: nd::i8_in(0, 7), end_col: nd::i8_in(0, 7) },
        3 => Move::CastlingShort { owner: mk::sym_player() },
        _ => Move::CastlingLong { owner: mk::sym_player() },
    }
}

/// Weakest shape precondition under which push's successor is the rules' successor: the move's
/// redundant fields agree with the board, it moves an own piece, does not capture an own piece or a
/// king, and the kind-specific facts push relies on (e.p.: own pawn on the 5th/4th rank of start_col;
/// castling: the right is held).  All of it follows from `m in get_moves()` + WF (C01).
pub fn push_shape_pre(v: &spec::View, m: &Move) -> bool {
    let w = v.white_to_move;
    let b = &v.board;
    if !adapt::fields_consistent(b, w, m) { return false; }
    match adapt::smove_of(m) {
        spec::SMove::Normal { from, to } => from != to && spec::owned_by(b[from], w) && !spec::owned_by(b[to], w) && spec::kind(b[to]) != spec::K
            // a pawn that advances two ranks stays on its file
            && (spec::kind(b[from]) != spec::P || (spec::rank(to) - spec::rank(from)).abs() != 2 || spec::file(from) == spec::file(to)),
        spec::SMove::Promo { from, to, .. } => from != to && b[from] == spec::code(spec::P, w) && !spec::owned_by(b[to], w) && spec::kind(b[to]) != spec::K,
        // WF7: the pawn to be taken is there, the landing square is empty
        spec::SMove::EnPassant { from, to } => b[from] == spec::code(spec::P, w) && b[to] == spec::EMPTY
            && b[(from / 8) * 8 + to % 8] == spec::code(spec::P, !w),
        // generated only with the squares between king and rook empty
        spec::SMove::CastleShort => { let r = if w { 0 } else { 56 }; v.castle[if w { 0 } else { 2 }] && b[r + 5] == 0 && b[r + 6] == 0 }
        spec::SMove::CastleLong => { let r = if w { 0 } else { 56 }; v.castle[if w { 1 } else { 3 }] && b[r + 1] == 0 && b[r + 2] == 0 && b[r + 3] == 0 }
    }
}

/// Contract of Game::push for one move kind:
///   pre   WF5 (1 <= len <= 511), WF6, push_shape_pre, score bound + WF2s at the touched squares
///   post  view(push(g, m)) == spec::apply(view(g), m)   (board at an arbitrary square j, side, rights, e.p.)
///         len' == len + 1, the entries below are unchanged
///         king cache still points at each side's king (WF1 preserved)
fn push_contract(kind: u8) -> (spec::View, spec::View) {
    let eg = nd::bool();
    let mut g = mk::sym_game(1, eg);
    let m = sym_move(kind);
    let j = mk::sym_sq();
    let v = adapt::view_of(&g);
    nd::assume(v.ep <= 8);
    nd::assume(wf6(&v));
    // WF1: at most one king per side
    nd::assume(spec::count(&v.board, spec::K) <= 1 && spec::count(&v.board, spec::K | spec::BLACK) <= 1);
    nd::assume(push_shape_pre(&v, &m));
    nd::assume(-SCORE_BOUND <= g.score && g.score <= SCORE_BOUND);
    let t = touched(&m);
    nd::assume(cache_ok_at(&g, t[0], eg) && cache_ok_at(&g, t[1], eg) && cache_ok_at(&g, t[2], eg) && cache_ok_at(&g, t[3], eg));
    let (wk, bk) = (king_cache_ok(&g, true), king_cache_ok(&g, false));
    let below0 = super::gamestate::verif_gamestate::bits(g.state[0]);
    let top0 = gs_bits(&g);

    #[cfg(not(kani))]
    eprintln!("position: {}\nmove: {}", adapt::show_view(&v), adapt::show_move(&m));
    g.push(m);

    let want = spec::apply(&v, adapt::smove_of(&m));
    let got = adapt::view_of(&g);
    assert!(got.board[j] == want.board[j], "C02: a square of the successor differs from the position the rules prescribe");
    assert!(got.white_to_move == want.white_to_move, "C02: side to move not flipped");
    assert!(got.castle[0] == want.castle[0] && got.castle[1] == want.castle[1] && got.castle[2] == want.castle[2] && got.castle[3] == want.castle[3],
            "C02: castling rights of the successor differ from the rules");
    assert!(got.ep == want.ep, "C02: en-passant file of the successor differs from the rules (set iff double push beside an enemy pawn)");
    assert!(g.state.len() == 3, "push did not add exactly one state entry");
    assert!(super::gamestate::verif_gamestate::bits(g.state[0]) == below0 && super::gamestate::verif_gamestate::bits(g.state[1]) == top0,
            "push changed an earlier state entry");
    assert!(!wk || king_cache_ok(&g, true), "C01/C03: white king cache no longer points at the white king");
    assert!(!bk || king_cache_ok(&g, false), "C01/C03: black king cache no longer points at the black king");
    vcover!(!v.white_to_move && wk && bk, "black move with both king caches valid reachable");
    (v, want)
}

#[cfg_attr(kani, kani::proof)] #[cfg_attr(verif_replay, test)]
pub fn push_contract_normal() {
    let (v, want) = push_contract(0);
    vcover!(want.ep < 8, "successor with an e.p. file reachable");
    vcover!(v.castle[0] && !want.castle[0] && want.castle[1], "losing one castling right reachable");
}
#[cfg_attr(kani, kani::proof)] #[cfg_attr(verif_replay, test)]
pub fn push_contract_promotion() {
    let (v, want) = push_contract(1);
    vcover!(v.castle[3] && !want.castle[3], "promotion capture of a rook on its home square loses the right");
}
#[cfg_attr(kani, kani::proof)] #[cfg_attr(verif_replay, test)]
pub fn push_contract_enpassant() {
    let (v, want) = push_contract(2);
    vcover!(v.ep == 7 && v.castle[0] && want.castle[0], "e.p. on the h file with rights kept reachable");
}
#[cfg_attr(kani, kani::proof)] #[cfg_attr(verif_replay, test)]
pub fn push_contract_castling_short() {
    let (v, want) = push_contract(3);
    vcover!(v.castle[2] && v.castle[3] && !want.castle[2] && !want.castle[3], "black castling loses both rights");
}
#[cfg_attr(kani, kani::proof)] #[cfg_attr(verif_replay, test)]
pub fn push_contract_castling_long() {
    let (v, want) = push_contract(4);
    vcover!(v.castle[0] && v.castle[1] && !want.castle[0] && !want.castle[1], "white castling loses both rights");
}
