//! c_chess.rs -- child module of `chess` (sees Game's private fields).  Constructors for symbolic
//! games (mk.rs), the adapter between engine values and the spec's encodings (adapt.rs), and the
//! harnesses for the contracts of Game::*.
use super::*;
use crate::nd;
use crate::spec;

#[path = "mk.rs"]
pub mod mk;
#[path = "adapt.rs"]
pub mod adapt;

// =================================================================================================
// Game::set_position  (C02, C03, C04, C15, C16)
// =================================================================================================

pub fn fits_i16(x: i32) -> bool { -32768 <= x && x <= 32767 }

/// WF8 => no i16 overflow of the running score: table facts.  With at most one king and 15 other
/// pieces per side (promoted pawns are worth at most a queen), any partial sum of contributions
/// stays within  max|king| + 9*maxQ + 2*maxR + 2*maxB + 2*maxN  <= 32767.
#[cfg_attr(kani, kani::proof)]
#[cfg_attr(kani, kani::unwind(65))]
#[cfg_attr(verif_replay, test)]
pub fn score_tables_bounded() {
    fn max_abs(t: &[i16; 64]) -> i32 { let mut m = 0i32; let mut i = 0; while i < 64 { let v = (t[i] as i32).abs(); if v > m { m = v; } i += 1; } m }
    let (q, r, b, n, p) = (max_abs(&scores::QUEEN_SCORES), max_abs(&scores::ROOK_SCORES), max_abs(&scores::BISHOP_SCORES),
                           max_abs(&scores::KNIGHT_SCORES), max_abs(&scores::PAWN_SCORES));
    fn min_of(t: &[i16; 64]) -> i32 { let mut m = i32::MAX; let mut i = 0; while i < 64 { if (t[i] as i32) < m { m = t[i] as i32; } i += 1; } m }
    let k = max_abs(&scores::KING_SCORES_MIDDLE).max(max_abs(&scores::KING_SCORES_END));
    let kmin = min_of(&scores::KING_SCORES_MIDDLE).min(min_of(&scores::KING_SCORES_END));
    assert!(q >= r && q >= b && q >= n && q >= p, "a promoted pawn can be worth more than a queen: bound argument breaks");
    // with both kings on the board: |score| <= (king spread) + material of one full side
    assert!((k - kmin) + 9 * q + 2 * r + 2 * b + 2 * n <= SCORE_BOUND as i32, "C16: SCORE_BOUND is not implied by the material bound");
    // transient states inside push/pop (own king and one more piece lifted) and king captures in the search
    assert!(SCORE_BOUND as i32 + q + k <= 32767 && SCORE_BOUND > 0, "C16: transient sums can leave i16");
}

/// Contract of Game::set_position(p, new):
///   pre   p valid; |score| <= SCORE_BOUND; past_scores[p] is a table value (|.| <= 20_100)
///   post  board' = board[p := new]
///         past_hashes' = past_hashes[p := key(p, new)],  hash'  = hash ^ past_hashes[p] ^ key(p, new)
///         past_scores' = past_scores[p := sq_score(p, new)], score' = score - past_scores[p] + sq_score(p, new)
///         frame: every other index of the three arrays, king cache, side, state stack unchanged
///   and   no overflow, every unchecked index in bounds (Kani's own checks)
#[cfg_attr(kani, kani::proof)]
#[cfg_attr(verif_replay, test)]
pub fn set_position_contract() {
    let eg = nd::bool();
    let mut g = mk::sym_game(0, eg);
    let p = mk::sym_sq();
    let j = mk::sym_sq();
    let new = mk::sym_place();
    // WF4 + WF8 (material bound, lemma score_tables_bounded + DESIGN.md 3.3): the running sum fits i16
    // before, between and after the two updates
    nd::assume(fits_i16(g.score as i32 - g.past_scores[p] as i32));
    nd::assume(fits_i16(g.score as i32 - g.past_scores[p] as i32 + adapt::want_score(p, adapt::code_of(new), eg) as i32));
    let (hash0, score0, ph0, ps0) = (g.hash, g.score, g.past_hashes[p], g.past_scores[p]);
    let (bj, phj, psj) = (g.board[j], g.past_hashes[j], g.past_scores[j]);
    let (kp0, side0, len0, top0) = (g.king_positions, g.current_player, g.state.len(), gs_bits(&g));

    g.set_position(mk::pos_of(p), new);

    let c = adapt::code_of(new);
    assert!(adapt::code_of(g.board[p]) == c, "set_position: board[p] is not the new content");
    assert!(g.past_hashes[p] == spec::key(p, c), "C04: cached key of the square is not the published key of its content");
    assert!(g.hash == hash0 ^ ph0 ^ spec::key(p, c), "C04: hash not updated by (old cached key) xor (new key)");
    assert!(g.past_scores[p] == adapt::want_score(p, c, eg), "C16: cached score of the square is not the piece-square value of its content");
    assert!(g.score as i32 == score0 as i32 - ps0 as i32 + adapt::want_score(p, c, eg) as i32, "C16: score not updated by -old +new");
    if j != p {
        assert!(g.board[j] == bj && g.past_hashes[j] == phj && g.past_scores[j] == psj, "set_position: frame violated (another square changed)");
    }
    assert!(g.king_positions == kp0 && g.current_player == side0 && g.state.len() == len0 && gs_bits(&g) == top0,
            "set_position: frame violated (king cache / side / state stack changed)");
    vcover!(j != p && new.is_some(), "placing a piece reachable");
    vcover!(new.is_none() && eg, "clearing a square in the endgame phase reachable");
}

pub fn gs_bits(g: &Game) -> u8 { super::gamestate::verif_gamestate::bits(*g.state.last().unwrap()) }

// =================================================================================================
// Game::push  (C02) -- successor position, per move kind
// =================================================================================================

/// bound on |score| used as WF4/WF8 precondition: the largest value for which the transient states inside
/// push/pop (own king and one more piece lifted, or an enemy king just captured) still fit i16 --
/// computed from the engine's tables, so a change of the tables moves the bound with them; the lemma
/// score_tables_bounded proves that the material bound of a legal position stays below it
pub const SCORE_BOUND: i16 = {
    const fn max_abs(t: &[i16; 64]) -> i32 { let mut m = 0i32; let mut i = 0; while i < 64 { let v = if t[i] < 0 { -(t[i] as i32) } else { t[i] as i32 }; if v > m { m = v; } i += 1; } m }
    let q = max_abs(&scores::QUEEN_SCORES);
    let k1 = max_abs(&scores::KING_SCORES_MIDDLE);
    let k2 = max_abs(&scores::KING_SCORES_END);
    let k = if k1 > k2 { k1 } else { k2 };
    (32767 - q - k) as i16
};

/// WF6: a castling right implies king and rook on their home squares
pub fn wf6(v: &spec::View) -> bool {
    let b = &v.board;
    (!v.castle[0] || (b[spec::E1] == spec::K && b[spec::H1] == spec::R))
        && (!v.castle[1] || (b[spec::E1] == spec::K && b[spec::A1] == spec::R))
        && (!v.castle[2] || (b[spec::E8] == (spec::K | spec::BLACK) && b[spec::H8] == (spec::R | spec::BLACK)))
        && (!v.castle[3] || (b[spec::E8] == (spec::K | spec::BLACK) && b[spec::A8] == (spec::R | spec::BLACK)))
}

/// WF1 (per colour): the king cache points at a king of that colour
pub fn king_cache_ok(g: &Game, white: bool) -> bool {
    let p = g.king_positions[if white { 0 } else { 1 }];
    adapt::code_of(g.board[adapt::sq(p)]) == spec::code(spec::K, white)
}

/// WF2s / WF2h at one square, stated through the leaf functions Piece::hash / Piece::score (whose own
/// contracts -- piece_hash_is_published_key, piece_score_is_table_value in c_piece.rs -- equate them
/// with the published key and the specified piece-square value).  Phrasing the invariant through the
/// callee keeps the solver from having to relate two different constant tables bit by bit.
pub fn cache_ok_at(g: &Game, s: usize, _eg: bool) -> bool {
    let pos = mk::pos_of(s);
    let (want_h, want_s) = match g.board[s] {
        Some(pc) => (pc.hash(pos), pc.score(pos, &g.piece_scores)),
        None => (zobrist::EMPTY_PLACE, 0),
    };
    g.past_hashes[s] == want_h && g.past_scores[s] == want_s
}

/// squares a move touches (at most 4; unused slots repeat the first)
pub fn touched(m: &Move) -> [usize; 4] {
    match adapt::smove_of(m) {
        spec::SMove::Normal { from, to } | spec::SMove::Promo { from, to, .. } => [from, to, from, to],
        spec::SMove::EnPassant { from, to } => [from, to, (from / 8) * 8 + to % 8, from],
        spec::SMove::CastleShort => { let r = match m { Move::CastlingShort { owner } if adapt::is_white(*owner) => 0, _ => 56 }; [r + 4, r + 5, r + 6, r + 7] }
        spec::SMove::CastleLong => { let r = match m { Move::CastlingLong { owner } if adapt::is_white(*owner) => 0, _ => 56 }; [r + 4, r + 3, r + 2, r] }
    }
}

/// a symbolic engine move of the given kind (0 Normal, 1 Promotion, 2 EnPassant, 3 short, 4 long)
pub fn sym_move(kind: u8) -> Move {
    match kind {
        0 => Move::Normal { piece: mk::sym_piece(), start: mk::sym_pos(), end: mk::sym_pos(), captured_piece: mk::sym_place() },
        1 => Move::Promotion { owner: mk::sym_player(), new_piece: mk::sym_promo_type(), start: mk::sym_pos(), end: mk::sym_pos(), captured_piece: mk::sym_place() },
        2 => Move::EnPassant { owner: mk::sym_player(), start_col: nd::i8_in(0, 7), end_col: nd::i8_in(0, 7) },
        3 => Move::CastlingShort { owner: mk::sym_player() },
        _ => Move::CastlingLong { owner: mk::sym_player() },
    }
}

/// Weakest shape precondition under which push's successor is the rules' successor: the move's
/// redundant fields agree with the board, it moves an own piece, does not capture an own piece or a
/// king, and the kind-specific facts push relies on (e.p.: own pawn on the 5th/4th rank of start_col;
/// castling: the right is held).  All of it follows from `m in get_moves()` + WF (C01).
pub fn push_shape_pre(v: &spec::View, m: &Move) -> bool {
    let w = v.white_to_move;
    let b = &v.board;
    if !adapt::fields_consistent(b, w, m) { return false; }
    match adapt::smove_of(m) {
        spec::SMove::Normal { from, to } => from != to && spec::owned_by(b[from], w) && !spec::owned_by(b[to], w) && spec::kind(b[to]) != spec::K
            // a pawn that advances two ranks stays on its file
            && (spec::kind(b[from]) != spec::P || (spec::rank(to) - spec::rank(from)).abs() != 2 || spec::file(from) == spec::file(to)),
        spec::SMove::Promo { from, to, .. } => from != to && b[from] == spec::code(spec::P, w) && !spec::owned_by(b[to], w) && spec::kind(b[to]) != spec::K,
        // WF7: the pawn to be taken is there, the landing square is empty
        spec::SMove::EnPassant { from, to } => b[from] == spec::code(spec::P, w) && b[to] == spec::EMPTY
            && b[(from / 8) * 8 + to % 8] == spec::code(spec::P, !w),
        // generated only with the squares between king and rook empty
        spec::SMove::CastleShort => { let r = if w { 0 } else { 56 }; v.castle[if w { 0 } else { 2 }] && b[r + 5] == 0 && b[r + 6] == 0 }
        spec::SMove::CastleLong => { let r = if w { 0 } else { 56 }; v.castle[if w { 1 } else { 3 }] && b[r + 1] == 0 && b[r + 2] == 0 && b[r + 3] == 0 }
    }
}

/// Contract of Game::push for one move kind:
///   pre   WF5 (1 <= len <= 511), WF6, push_shape_pre, score bound + WF2s at the touched squares
///   post  view(push(g, m)) == spec::apply(view(g), m)   (board at an arbitrary square j, side, rights, e.p.)
///         len' == len + 1, the entries below are unchanged
///         king cache still points at each side's king (WF1 preserved)
fn push_contract(kind: u8) -> (spec::View, spec::View) {
    let eg = nd::bool();
    let mut g = mk::sym_game(1, eg);
    let m = sym_move(kind);
    let j = mk::sym_sq();
    let v = adapt::view_of(&g);
    nd::assume(v.ep <= 8);
    nd::assume(wf6(&v));
    // WF1: at most one king per side
    nd::assume(spec::count(&v.board, spec::K) <= 1 && spec::count(&v.board, spec::K | spec::BLACK) <= 1);
    nd::assume(push_shape_pre(&v, &m));
    nd::assume(-SCORE_BOUND <= g.score && g.score <= SCORE_BOUND);
    let t = touched(&m);
    nd::assume(cache_ok_at(&g, t[0], eg) && cache_ok_at(&g, t[1], eg) && cache_ok_at(&g, t[2], eg) && cache_ok_at(&g, t[3], eg));
    let (wk, bk) = (king_cache_ok(&g, true), king_cache_ok(&g, false));
    let below0 = super::gamestate::verif_gamestate::bits(g.state[0]);
    let top0 = gs_bits(&g);

    #[cfg(not(kani))]
    eprintln!("position: {}\nmove: {}", adapt::show_view(&v), adapt::show_move(&m));
    g.push(m);

    let want = spec::apply(&v, adapt::smove_of(&m));
    let got = adapt::view_of(&g);
    assert!(got.board[j] == want.board[j], "C02: a square of the successor differs from the position the rules prescribe");
    assert!(got.white_to_move == want.white_to_move, "C02: side to move not flipped");
    assert!(got.castle[0] == want.castle[0] && got.castle[1] == want.castle[1] && got.castle[2] == want.castle[2] && got.castle[3] == want.castle[3],
            "C02: castling rights of the successor differ from the rules");
    assert!(got.ep == want.ep, "C02: en-passant file of the successor differs from the rules (set iff double push beside an enemy pawn)");
    assert!(g.state.len() == 3, "push did not add exactly one state entry");
    assert!(super::gamestate::verif_gamestate::bits(g.state[0]) == below0 && super::gamestate::verif_gamestate::bits(g.state[1]) == top0,
            "push changed an earlier state entry");
    assert!(!wk || king_cache_ok(&g, true), "C01/C03: white king cache no longer points at the white king");
    assert!(!bk || king_cache_ok(&g, false), "C01/C03: black king cache no longer points at the black king");
    vcover!(!v.white_to_move && wk && bk, "black move with both king caches valid reachable");
    (v, want)
}

#[cfg_attr(kani, kani::proof)] #[cfg_attr(verif_replay, test)]
pub fn push_contract_normal() {
    let (v, want) = push_contract(0);
    vcover!(want.ep < 8, "successor with an e.p. file reachable");
    vcover!(v.castle[0] && !want.castle[0] && want.castle[1], "losing one castling right reachable");
}
#[cfg_attr(kani, kani::proof)] #[cfg_attr(verif_replay, test)]
pub fn push_contract_promotion() {
    let (v, want) = push_contract(1);
    vcover!(v.castle[3] && !want.castle[3], "promotion capture of a rook on its home square loses the right");
}
#[cfg_attr(kani, kani::proof)] #[cfg_attr(verif_replay, test)]
pub fn push_contract_enpassant() {
    let (v, want) = push_contract(2);
    vcover!(v.ep == 7 && v.castle[0] && want.castle[0], "e.p. on the h file with rights kept reachable");
}
#[cfg_attr(kani, kani::proof)] #[cfg_attr(verif_replay, test)]
pub fn push_contract_castling_short() {
    let (v, want) = push_contract(3);
    vcover!(v.castle[2] && v.castle[3] && !want.castle[2] && !want.castle[3], "black castling loses both rights");
}
#[cfg_attr(kani, kani::proof)] #[cfg_attr(verif_replay, test)]
pub fn push_contract_castling_long() {
    let (v, want) = push_contract(4);
    vcover!(v.castle[0] && v.castle[1] && !want.castle[0] && !want.castle[1], "white castling loses both rights");
}

// =================================================================================================
// Game::pop after Game::push  (C03) -- take-back restores everything
// =================================================================================================

/// Shape of every move the generator can emit, checked or unchecked -- in particular captures of the
/// enemy KING are allowed here (the search plays them).
pub fn generated_shape(v: &spec::View, m: &Move) -> bool {
    let w = v.white_to_move;
    let b = &v.board;
    if !adapt::fields_consistent(b, w, m) { return false; }
    match adapt::smove_of(m) {
        // (king steps next to the enemy king are pruned by the generator, so a king never captures a king;
        //  without this, pop's transient "two kings of one colour" overflows the i16 score in checked builds)
        spec::SMove::Normal { from, to } => from != to && spec::owned_by(b[from], w) && !spec::owned_by(b[to], w)
            && !(spec::kind(b[from]) == spec::K && spec::kind(b[to]) == spec::K),
        spec::SMove::Promo { from, to, .. } => from != to && b[from] == spec::code(spec::P, w) && !spec::owned_by(b[to], w),
        spec::SMove::EnPassant { from, to } => b[from] == spec::code(spec::P, w) && b[to] == spec::EMPTY
            && b[(from / 8) * 8 + to % 8] == spec::code(spec::P, !w),
        spec::SMove::CastleShort => { let r = if w { 0 } else { 56 }; v.castle[if w { 0 } else { 2 }] && b[r + 5] == 0 && b[r + 6] == 0 }
        spec::SMove::CastleLong => { let r = if w { 0 } else { 56 }; v.castle[if w { 1 } else { 3 }] && b[r + 1] == 0 && b[r + 2] == 0 && b[r + 3] == 0 }
    }
}

/// which group of postconditions a round-trip harness asserts (the groups partition the contract;
/// one SAT query per group keeps each query small -- the whole conjunction did not finish in 30 min)
#[derive(Clone, Copy, PartialEq, Eq)]
pub enum Part { All, Board, Keys, Scores, Score, Hash }

/// Contract: for every game satisfying WF (locally: WF1 for the mover's king, WF2 at the touched
/// squares, WF5, WF6, score bound) and every move of generated shape,
///     pop(push(g, m), m) == g     on EVERY field:
/// board, cached keys and scores (at an arbitrary square j), hash, score, king cache, side, stack
/// length, every state entry, evaluation tables.
fn roundtrip_contract(kind: u8, part: Part) -> (spec::View, Move) {
    let eg = nd::bool();
    let mut g = mk::sym_game(1, eg);
    let m = sym_move(kind);
    let j = mk::sym_sq();
    let v = adapt::view_of(&g);
    nd::assume(v.ep <= 8);
    nd::assume(wf6(&v));
    nd::assume(generated_shape(&v, &m));
    nd::assume(-SCORE_BOUND <= g.score && g.score <= SCORE_BOUND);
    let t = touched(&m);
    nd::assume(cache_ok_at(&g, t[0], eg) && cache_ok_at(&g, t[1], eg) && cache_ok_at(&g, t[2], eg) && cache_ok_at(&g, t[3], eg));
    // WF1 for the mover: the cache points at the mover's only king
    nd::assume(king_cache_ok(&g, v.white_to_move) && spec::count(&v.board, spec::code(spec::K, v.white_to_move)) == 1);
    let (hash0, score0, kp0, side0) = (g.hash, g.score, g.king_positions, g.current_player);
    let (bj, phj, psj) = (g.board[j], g.past_hashes[j], g.past_scores[j]);
    let below0 = super::gamestate::verif_gamestate::bits(g.state[0]);
    let top0 = gs_bits(&g);
    #[cfg(not(kani))]
    eprintln!("position: {}\nmove: {}", adapt::show_view(&v), adapt::show_move(&m));

    g.push(m);
    g.pop(m);

    if part == Part::All || part == Part::Board {
        assert!(g.board[j] == bj, "C03: take-back did not restore the board");
        assert!(g.king_positions == kp0, "C03: take-back did not restore the king locations");
        assert!(g.current_player == side0, "C03: take-back did not restore the side to move");
        assert!(g.state.len() == 2, "C03: take-back did not restore the game length");
        assert!(super::gamestate::verif_gamestate::bits(g.state[0]) == below0 && gs_bits(&g) == top0, "C03: take-back did not restore the state stack");
        assert!(adapt::endgame_table_in_force(&g) == eg, "C03: push/pop changed the evaluation tables");
    }
    if part == Part::All || part == Part::Keys { assert!(g.past_hashes[j] == phj, "C03: take-back did not restore a cached square key"); }
    if part == Part::All || part == Part::Scores { assert!(g.past_scores[j] == psj, "C03: take-back did not restore a cached square score"); }
    if part == Part::All || part == Part::Score { assert!(g.score == score0, "C03: take-back did not restore the score"); }
    if part == Part::All || part == Part::Hash { assert!(g.hash == hash0, "C03: take-back did not restore the hash"); }
    (v, m)
}

macro_rules! rt_harness { ($name:ident, $kind:expr, $part:expr, |$v:ident, $m:ident| $cov:block) => {
    #[cfg_attr(kani, kani::proof)] #[cfg_attr(verif_replay, test)]
    pub fn $name() { let ($v, $m) = roundtrip_contract($kind, $part); $cov }
} }
macro_rules! rt_normal { ($name:ident, $part:expr) => { rt_harness!($name, 0, $part, |v, m| {
    vcover!(matches!(m, Move::Normal { captured_piece: Some(Piece { piece_type: PieceType::King, .. }), .. }), "capturing the enemy king reachable");
    vcover!(matches!(m, Move::Normal { piece: Piece { piece_type: PieceType::King, .. }, .. }) && v.castle[0], "king move with rights reachable");
}); } }
rt_normal!(roundtrip_normal_board, Part::Board);
rt_normal!(roundtrip_normal_keys, Part::Keys);
rt_normal!(roundtrip_normal_scores, Part::Scores);
rt_normal!(roundtrip_normal_score, Part::Score);
rt_normal!(roundtrip_normal_hash, Part::Hash);
macro_rules! rt_promo { ($name:ident, $part:expr) => { rt_harness!($name, 1, $part, |_v, m| {
    vcover!(matches!(m, Move::Promotion { captured_piece: Some(_), new_piece: PieceType::Knight, .. }), "under-promotion capture reachable");
}); } }
rt_promo!(roundtrip_promotion_board, Part::Board);
rt_promo!(roundtrip_promotion_keys, Part::Keys);
rt_promo!(roundtrip_promotion_scores, Part::Scores);
rt_promo!(roundtrip_promotion_score, Part::Score);
rt_promo!(roundtrip_promotion_hash, Part::Hash);
rt_harness!(roundtrip_enpassant, 2, Part::All, |v, _m| { vcover!(!v.white_to_move, "black e.p. reachable"); });
rt_harness!(roundtrip_castling_short, 3, Part::All, |v, _m| { vcover!(!v.white_to_move, "black short castling reachable"); });
rt_harness!(roundtrip_castling_long, 4, Part::All, |v, _m| { vcover!(v.white_to_move, "white long castling reachable"); });

// =================================================================================================
// push / pop against the CONTRACT of set_position (modular step for the hash and the score)
// =================================================================================================

/// Abstract callee standing for Game::set_position in the harnesses below: it performs the one
/// effect of the contract that the rest of push/pop can observe (board[p] := new) and leaves
/// hash, score and both caches alone.  set_position_contract proves that the real function changes
/// (hash, past_hashes[p]) and (score, past_scores[p]) only so that  hash ^ XOR past_hashes  and
/// score - SUM past_scores  are preserved, and nothing else.
pub fn set_position_board_only(g: &mut Game, position: Position, new_place: Option<Piece>) {
    g.board[position.as_usize()] = new_place;
}

/// Outside their set_position calls, push and pop touch the hash only by the side key and the keys of
/// the old and new top state, and never touch score or the caches:
///   push: hash' = hash ^ SIDE ^ key(top) ^ key(top'),   pop: exactly undoes it.
/// With set_position's contract this gives WF3/WF4 preservation (C04, C16) and, together with the
/// restoration of board and caches, the restoration of hash and score (C03).
fn hash_score_delta_contract(kind: u8) {
    let mut g = mk::sym_game(1, false);
    let m = sym_move(kind);
    let j = mk::sym_sq();
    let v = adapt::view_of(&g);
    nd::assume(v.ep <= 8);
    nd::assume(generated_shape(&v, &m));
    let (hash0, score0, phj, psj) = (g.hash, g.score, g.past_hashes[j], g.past_scores[j]);
    let top0 = *g.state.last().unwrap();
    g.push(m);
    let top1 = *g.state.last().unwrap();
    assert!(g.hash == hash0 ^ zobrist::BLACK_TO_MOVE ^ top0.hash() ^ top1.hash(),
            "C04: push changes the hash (outside set_position) by something other than side key and the two state keys");
    assert!(g.score == score0 && g.past_hashes[j] == phj && g.past_scores[j] == psj, "C16/C04: push touches score or caches outside set_position");
    g.pop(m);
    assert!(g.hash == hash0, "C03/C04: pop does not undo push's side/state key toggles");
    assert!(g.score == score0 && g.past_hashes[j] == phj && g.past_scores[j] == psj, "C16/C04: pop touches score or caches outside set_position");
    vcover!(super::gamestate::verif_gamestate::bits(top0) != super::gamestate::verif_gamestate::bits(top1), "state change reachable");
}
macro_rules! delta_harness { ($name:ident, $kind:expr) => {
    #[cfg_attr(kani, kani::proof)]
    #[cfg_attr(kani, kani::stub(Game::set_position, set_position_board_only))]
    #[cfg_attr(verif_replay, test)]
    pub fn $name() { hash_score_delta_contract($kind) }
} }
delta_harness!(delta_normal, 0);
delta_harness!(delta_promotion, 1);
delta_harness!(delta_enpassant, 2);
delta_harness!(delta_castling_short, 3);
delta_harness!(delta_castling_long, 4);

// =================================================================================================
// Game::update_phase / Game::is_endgame  (C03, C16: caches stay consistent with the tables in force)
// =================================================================================================

#[cfg(kani)]
static mut ENDGAME_ORACLE: bool = false;
/// abstract callee for is_endgame (its own contract: is_endgame_contract)
#[cfg(kani)]
pub fn is_endgame_oracle(_g: &Game) -> bool { unsafe { ENDGAME_ORACLE } }

/// Contract of update_phase: whatever is_endgame answers,
///   * WF2s is preserved: for every square j, past_scores[j] is the value of board[j] under the tables
///     IN FORCE AFTER the call (both kings valued by the same table),
///   * WF4 is preserved: score - SUM past_scores unchanged (checked as: score changes by exactly the
///     change of the two kings' cached values),
///   * position, hash and cached keys are untouched, the king table is only ever switched to END.
#[cfg_attr(kani, kani::proof)]
#[cfg_attr(kani, kani::stub(Game::is_endgame, is_endgame_oracle))]
#[cfg_attr(verif_replay, test)]
pub fn update_phase_contract() {
    let eg = nd::bool();
    let mut g = mk::sym_game(0, eg);
    let j = mk::sym_sq();
    #[cfg(kani)]
    unsafe { ENDGAME_ORACLE = nd::bool(); }
    let v = adapt::view_of(&g);
    nd::assume(v.ep <= 8);
    // WF1: the caches point at the only king of each side
    nd::assume(king_cache_ok(&g, true) && king_cache_ok(&g, false));
    nd::assume(spec::count(&v.board, spec::K) == 1 && spec::count(&v.board, spec::K | spec::BLACK) == 1);
    let (wk, bk) = (adapt::sq(g.king_positions[0]), adapt::sq(g.king_positions[1]));
    // WF2 at the two king squares and at an arbitrary square j
    nd::assume(cache_ok_at(&g, wk, eg) && cache_ok_at(&g, bk, eg) && cache_ok_at(&g, j, eg));
    nd::assume(-SCORE_BOUND <= g.score && g.score <= SCORE_BOUND);
    let (hash0, score0, kp0) = (g.hash, g.score, g.king_positions);
    let (pwk0, pbk0) = (g.past_scores[wk] as i32, g.past_scores[bk] as i32);
    #[cfg(not(kani))]
    eprintln!("position: {}  (score cache consistent, king table: {})", adapt::show_view(&v), if eg { "END" } else { "MIDDLE" });

    g.update_phase();

    let eg1 = adapt::endgame_table_in_force(&g);
    assert!(!eg || eg1, "update_phase switched the king table back to MIDDLE");
    assert!(cache_ok_at(&g, j, eg1), "C16/C03: after update_phase a cached square score is stale w.r.t. the tables in force (kings valued by different tables)");
    assert!(g.score as i32 - score0 as i32 == (g.past_scores[wk] as i32 - pwk0) + (g.past_scores[bk] as i32 - pbk0),
            "C16: update_phase breaks score == SUM of cached square scores");
    let v1 = adapt::view_of(&g);
    assert!(v1.board[j] == v.board[j] && v1.white_to_move == v.white_to_move && v1.castle == v.castle && v1.ep == v.ep, "update_phase changed the position");
    assert!(g.hash == hash0 && g.king_positions == kp0 && g.state.len() == 1, "update_phase changed hash / king cache / stack");
    vcover!(!eg && eg1, "switching to the endgame table reachable");
}

/// Contract of is_endgame: true iff the sum of |piece-square value| over the board is below
/// 2 * ENDGAME_THRESHOLD; no overflow for any board with at most 32 pieces.
#[cfg_attr(kani, kani::proof)]
#[cfg_attr(kani, kani::unwind(65))]
#[cfg_attr(verif_replay, test)]
pub fn is_endgame_contract() {
    let eg = nd::bool();
    let g = mk::sym_game(0, eg);
    let b = adapt::board_of(&g);
    let mut total: u32 = 0;
    let mut s = 0;
    while s < 64 { total += (adapt::want_score(s, b[s], eg) as i32).unsigned_abs(); s += 1; }
    assert!(g.is_endgame() == (total < 2 * scores::ENDGAME_THRESHOLD), "is_endgame is not `total piece value below twice the threshold`");
    vcover!(total < 2 * scores::ENDGAME_THRESHOLD && total > 40000, "endgame with two kings reachable");
}

/// Native witness for D1 (run by ./verify replay on findings/D1-*.json, or by hand): an endgame loaded
/// from text; generating moves must not change the score.
#[cfg_attr(verif_replay, test)]
pub fn witness_d1_endgame_score_drift() {
    let mut g = Game::new("8/8/8/4k3/8/8/8/4K3 w - - 0 1").unwrap();
    let before = g.score();
    let mut moves = ArrayVec::new();
    g.get_moves(&mut moves, true);
    assert!(g.score() == before, "C03/C16: generating moves changed the score of an endgame loaded from text: {} -> {}", before, g.score());
}

// =================================================================================================
// Zobrist key tables (C04, C05)
// =================================================================================================

/// C04: the engine's key constants are the published key-file entries: side key at byte 0, empty-square
/// key at byte 1, state key i at 2 + 8 i, piece key at 259 + 8 (12 sq + p)  (constant evaluation).
#[cfg_attr(kani, kani::proof)]
#[cfg_attr(kani, kani::unwind(257))]
#[cfg_attr(verif_replay, test)]
pub fn keys_tables_match_published_layout() {
    assert!(zobrist::BLACK_TO_MOVE == spec::le64(0), "C04: side key is not the key-file entry at offset 0");
    assert!(zobrist::EMPTY_PLACE == spec::le64(1), "C04: empty-square key is not the key-file entry at offset 1");
    let mut i = 0;
    while i < 256 { assert!(zobrist::STATE[i] == spec::le64(2 + 8 * i), "C04: a state key is not the key-file entry at 2 + 8 i"); i += 1; }
    let mut s = 0;
    while s < 64 {
        let mut p = 0;
        while p < 12 { assert!(zobrist::PIECE[s][p] == spec::le64(259 + 8 * (12 * s + p)), "C04: a piece key is not the key-file entry at 259 + 8 (12 sq + p)"); p += 1; }
        s += 1;
    }
}

pub fn start_view() -> spec::View {
    let mut b = [0u8; 64];
    let back = [spec::R, spec::N, spec::B, spec::Q, spec::K, spec::B, spec::N, spec::R];
    let mut f = 0;
    while f < 8 { b[f] = back[f]; b[8 + f] = spec::P; b[48 + f] = spec::P | spec::BLACK; b[56 + f] = back[f] | spec::BLACK; f += 1; }
    spec::View { board: b, white_to_move: true, castle: [true; 4], ep: 8 }
}

/// C04: the published keys combine to D9C54592621D7040 for the standard start position
#[cfg_attr(kani, kani::proof)]
#[cfg_attr(kani, kani::unwind(65))]
#[cfg_attr(verif_replay, test)]
pub fn spec_start_position_hash() {
    assert!(spec::hash_of(&start_view()) == 0xD9C54592621D7040, "C04: key file entries for the start position do not combine to D9C54592621D7040");
}

/// C05: changing the content of one square changes that square's key (12 pieces + empty, pairwise
/// distinct on every square); stated on the engine's own leaf functions.
#[cfg_attr(kani, kani::proof)]
#[cfg_attr(verif_replay, test)]
pub fn c05_square_keys_distinct() {
    let s = mk::sym_sq();
    let (a, b) = (mk::sym_place(), mk::sym_place());
    nd::assume(a != b);
    let pos = mk::pos_of(s);
    let ka = match a { Some(p) => p.hash(pos), None => zobrist::EMPTY_PLACE };
    let kb = match b { Some(p) => p.hash(pos), None => zobrist::EMPTY_PLACE };
    assert!(ka != kb, "C05: two different contents of a square share a key");
    vcover!(a.is_none() && s == 63, "empty vs piece on h8 reachable");
}

/// C05: side key non-zero; two states differing in any castling right or in the e.p. file (0..=8) have
/// different keys.
#[cfg_attr(kani, kani::proof)]
#[cfg_attr(verif_replay, test)]
pub fn c05_state_and_side_keys_distinct() {
    assert!(zobrist::BLACK_TO_MOVE != 0, "C05: the side key is zero");
    let (a, b) = (nd::u8(), nd::u8());
    nd::assume(a != b && (a & 15) <= 8 && (b & 15) <= 8);
    let (sa, sb) = (super::gamestate::verif_gamestate::mk(a), super::gamestate::verif_gamestate::mk(b));
    assert!(sa.hash() != sb.hash(), "C05: two different castling/e.p. states share a key");
    vcover!(a == 0x18 && b == 0x08, "one right of difference reachable");
}

/// native (test, not proof): Game::default().hash() is the documented constant and every pairwise XOR
/// of two keys is distinct (=> any two positions differing in at most two features hash differently)
#[cfg_attr(verif_replay, test)]
pub fn native_start_hash_and_pairwise_xor() {
    assert!(Game::default().hash() == 0xD9C54592621D7040, "C04: Game::default().hash() != D9C54592621D7040");
    let mut keys: Vec<u64> = vec![zobrist::BLACK_TO_MOVE, zobrist::EMPTY_PLACE];
    keys.extend_from_slice(&zobrist::STATE);
    for s in 0..64 { keys.extend_from_slice(&zobrist::PIECE[s]); }
    assert!(keys.len() == 1026);
    let mut xors = std::collections::HashSet::new();
    for i in 0..keys.len() { for j in (i + 1)..keys.len() { assert!(xors.insert(keys[i] ^ keys[j]), "C05: two pairs of keys have the same XOR"); } }
    assert!(!xors.contains(&0));
}

#[path = "c_moves.rs"]
pub mod moves;
#[path = "instances.rs"]
pub mod inst;

#[path = "c_fen.rs"]
pub mod fen;


// =================================================================================================
// WF is inductive at the level of the rules (spec-only lemmas behind "sequences of any length")
// =================================================================================================

/// spec::apply preserves WF6 (a right implies king and rook at home) and the number of kings, for every
/// view with WF6 and every move of the shape push's contract assumes.  No engine code: together with
/// push_contract_* (view(push(g,m)) == apply(view(g),m)) this is the induction step of C02 / C01.
fn spec_apply_preserves_wf(kind: u8) {
    let v = spec::View { board: mk::sym_codes64(), white_to_move: nd::bool(), castle: [nd::bool(), nd::bool(), nd::bool(), nd::bool()], ep: nd::u8_in(0, 8) };
    let m = sym_move(kind);
    nd::assume(wf6(&v));
    nd::assume(push_shape_pre(&v, &m));
    let n = spec::apply(&v, adapt::smove_of(&m));
    assert!(wf6(&n), "C02: the rules' successor loses WF6 (a castling right survives although king or rook left home)");
    if kind == 0 {
        // Normal: exactly the two squares change, the mover arrives, and (precondition) no king was captured
        // -- so the number of kings is unchanged (counting 64 squares four times made this query run > 20 min)
        let j = mk::sym_sq();
        if let spec::SMove::Normal { from, to } = adapt::smove_of(&m) {
            assert!(n.board[from] == spec::EMPTY && n.board[to] == v.board[from] && (j == from || j == to || n.board[j] == v.board[j]),
                    "C01: the rules' successor of a normal move changes a third square");
        }
    } else {
        assert!(spec::count(&n.board, spec::K) == spec::count(&v.board, spec::K) && spec::count(&n.board, spec::K | spec::BLACK) == spec::count(&v.board, spec::K | spec::BLACK),
                "C01: the rules' successor changes the number of kings");
    }
    assert!(n.white_to_move != v.white_to_move, "side not flipped");
    vcover!(!v.white_to_move, "black move reachable");
}
macro_rules! wf_lemma { ($n:ident, $k:expr) => {
    #[cfg_attr(kani, kani::proof)] #[cfg_attr(kani, kani::unwind(9))] #[cfg_attr(verif_replay, test)]
    pub fn $n() { spec_apply_preserves_wf($k) } } }
wf_lemma!(spec_apply_preserves_wf_normal, 0);
wf_lemma!(spec_apply_preserves_wf_promotion, 1);
wf_lemma!(spec_apply_preserves_wf_enpassant, 2);
wf_lemma!(spec_apply_preserves_wf_castling_short, 3);
wf_lemma!(spec_apply_preserves_wf_castling_long, 4);

/// push / pop with a state stack of ANY length 2..=511 (removes the "depth instantiated at 2" assumption
/// for the stack discipline): push appends exactly one entry above an unchanged stack, pop removes it,
/// and the arrayvec capacity assertion holds for every such length.
fn stack_discipline_contract(kind: u8) {
    let mut g = mk::sym_game_anylen(false);
    let m = sym_move(kind);
    let v = adapt::view_of(&g);
    nd::assume(v.ep <= 8);
    nd::assume(wf6(&v));
    nd::assume(generated_shape(&v, &m));
    nd::assume(-SCORE_BOUND <= g.score && g.score <= SCORE_BOUND);
    let t = touched(&m);
    nd::assume(cache_ok_at(&g, t[0], false) && cache_ok_at(&g, t[1], false) && cache_ok_at(&g, t[2], false) && cache_ok_at(&g, t[3], false));
    let len0 = g.state.len();
    let i = nd::u16() as usize;
    nd::assume(i < len0);
    let before = super::gamestate::verif_gamestate::bits(g.state[i]);
    g.push(m);
    assert!(g.state.len() == len0 + 1, "push did not add exactly one state entry");
    assert!(super::gamestate::verif_gamestate::bits(g.state[i]) == before, "push changed an earlier state entry");
    g.pop(m);
    assert!(g.state.len() == len0, "C03: take-back did not restore the game length");
    assert!(super::gamestate::verif_gamestate::bits(g.state[i]) == before, "C03: take-back changed an earlier state entry");
    vcover!(len0 == 511 && i == 0, "full-but-one stack reachable");
}
macro_rules! stack_harness { ($n:ident, $k:expr) => {
    #[cfg_attr(kani, kani::proof)] #[cfg_attr(verif_replay, test)]
    pub fn $n() { stack_discipline_contract($k) } } }
stack_harness!(stack_discipline_normal, 0);
stack_harness!(stack_discipline_promotion, 1);
stack_harness!(stack_discipline_enpassant, 2);
stack_harness!(stack_discipline_castling_short, 3);
stack_harness!(stack_discipline_castling_long, 4);
