//! c_move.rs -- child module of `chess::move_struct`: contracts of the move text functions
//! (C20 move record, C12 UCI text).
use super::*;
use crate::chess::verif_chess::{adapt, mk};
use crate::nd;
use crate::spec::{self, SMove};

fn same(s: &str, t: &spec::Text<8>) -> bool { t.eq_bytes(s.as_bytes()) }

/// board fragment on which the spec renders a move: only the two squares the text depends on
fn two_square_board(from: usize, fc: u8, to: usize, tc: u8) -> spec::Board {
    let mut b = [0u8; 64];
    b[to] = tc;
    b[from] = fc;
    b
}

/// C20: record text of a Normal move == piece letter (none for pawns), origin file, `x` iff capture,
/// destination square -- for every piece, every pair of squares, every captured content.
/// Case split (pawn?, capture?) only to keep the String length concrete per harness; the four
/// cases partition the domain.
fn record_normal_case(pawn: bool, capture: bool) {
    let piece = mk::sym_piece();
    let (start, end) = (mk::sym_pos(), mk::sym_pos());
    let captured = mk::sym_place();
    nd::assume(adapt::sq(start) != adapt::sq(end));
    nd::assume((piece.piece_type == PieceType::Pawn) == pawn && captured.is_some() == capture);
    let m = Move::Normal { piece, start, end, captured_piece: captured };
    let text = m.pgn_notation();
    let b = two_square_board(adapt::sq(start), adapt::code_of(Some(piece)), adapt::sq(end), adapt::code_of(captured));
    let want = spec::record_text(&b, adapt::smove_of(&m), adapt::is_white(piece.owner));
    assert!(same(&text, &want), "C20: move record of a normal move differs from the specified text");
    vcover!(adapt::sq(end) == 63, "h8 destination reachable");
}
macro_rules! normal_case { ($n:ident, $p:expr, $c:expr) => {
    #[cfg_attr(kani, kani::proof)] #[cfg_attr(kani, kani::unwind(9))] #[cfg_attr(verif_replay, test)]
    pub fn $n() { record_normal_case($p, $c) } } }
normal_case!(c20_record_normal_pawn_quiet, true, false);
normal_case!(c20_record_normal_pawn_capture, true, true);
normal_case!(c20_record_normal_piece_quiet, false, false);
normal_case!(c20_record_normal_piece_capture, false, true);

/// C20: record text of a promotion names the origin file, `x` iff capture, destination, `=` and
/// the piece actually promoted to (Q, R, B or N).
fn record_promotion_case(capture: bool) {
    let owner = mk::sym_player();
    let new_piece = mk::sym_promo_type();
    let (start, end) = (mk::sym_pos(), mk::sym_pos());
    let captured = mk::sym_place();
    nd::assume(adapt::sq(start) != adapt::sq(end));
    nd::assume(captured.is_some() == capture);
    let m = Move::Promotion { owner, new_piece, start, end, captured_piece: captured };
    let text = m.pgn_notation();
    let w = adapt::is_white(owner);
    let b = two_square_board(adapt::sq(start), spec::code(spec::P, w), adapt::sq(end), adapt::code_of(captured));
    let want = spec::record_text(&b, adapt::smove_of(&m), w);
    assert!(text.len() >= 2 && text.as_bytes()[text.len() - 2] == b'=', "C20: promotion record lacks `=`");
    let letter = text.as_bytes()[text.len() - 1];
    let want_letter = match new_piece { PieceType::Queen => b'Q', PieceType::Rook => b'R', PieceType::Bishop => b'B', _ => b'N' };
    assert!(letter == want_letter, "C20: promotion record names a different piece than the one promoted to");
    assert!(same(&text, &want), "C20: move record of a promotion differs from the specified text");
    vcover!(new_piece == PieceType::Knight, "under-promotion reachable");
}
#[cfg_attr(kani, kani::proof)] #[cfg_attr(kani, kani::unwind(9))] #[cfg_attr(verif_replay, test)]
pub fn c20_record_promotion_quiet() { record_promotion_case(false) }
#[cfg_attr(kani, kani::proof)] #[cfg_attr(kani, kani::unwind(9))] #[cfg_attr(verif_replay, test)]
pub fn c20_record_promotion_capture() { record_promotion_case(true) }

/// C20: castling records.
#[cfg_attr(kani, kani::proof)] #[cfg_attr(kani, kani::unwind(9))] #[cfg_attr(verif_replay, test)]
pub fn c20_record_castling_short() {
    let owner = mk::sym_player();
    let m = Move::CastlingShort { owner };
    let want = spec::record_text(&[0u8; 64], adapt::smove_of(&m), adapt::is_white(owner));
    assert!(same(&m.pgn_notation(), &want), "C20: record of short castling is not O-O");
    vcover!(true, "reachable");
}
#[cfg_attr(kani, kani::proof)] #[cfg_attr(kani, kani::unwind(9))] #[cfg_attr(verif_replay, test)]
pub fn c20_record_castling_long() {
    let owner = mk::sym_player();
    let m = Move::CastlingLong { owner };
    let want = spec::record_text(&[0u8; 64], adapt::smove_of(&m), adapt::is_white(owner));
    assert!(same(&m.pgn_notation(), &want), "C20: record of long castling is not O-O-O");
    vcover!(true, "reachable");
}
/// C20: en-passant record: origin file, x, destination file, rank 6 (White) / 3 (Black).
#[cfg_attr(kani, kani::proof)] #[cfg_attr(kani, kani::unwind(9))] #[cfg_attr(verif_replay, test)]
pub fn c20_record_enpassant() {
    let owner = mk::sym_player();
    let w = adapt::is_white(owner);
    let (sc, ec) = (nd::i8_in(0, 7), nd::i8_in(0, 7));
    let m = Move::EnPassant { owner, start_col: sc, end_col: ec };
    let sm = adapt::smove_of(&m);
    let b = match sm { SMove::EnPassant { from, to } => two_square_board(from, spec::code(spec::P, w), to, 0), _ => [0u8; 64] };
    let want = spec::record_text(&b, sm, w);
    assert!(same(&m.pgn_notation(), &want), "C20: move record of en passant differs from the specified text");
    vcover!(!w && ec == 7, "black en passant to the h file reachable");
}

// =================================================================================================
// C12 -- UCI move text: printer, parser, round trip, exactness
// =================================================================================================

fn text5_eq(s: &str, t: &spec::Text<5>) -> bool { t.eq_bytes(s.as_bytes()) }

/// a game with symbolic board / side / state / king cache; caches irrelevant
fn parse_game() -> crate::chess::Game { mk::sym_game_nocache(0) }

/// the moves the acceptance test can let through are members of the legal list; this is a cheap
/// SUPERSET of that list's shape (fields agree with the board; e.p. and promotion are geometrically
/// real; castling: the king cache says the king is at home)
fn acceptable(g: &crate::chess::Game, m: &Move) -> bool {
    let v = adapt::view_of(g);
    if !adapt::fields_consistent(&v.board, v.white_to_move, m) { return false; }
    match adapt::smove_of(m) {
        SMove::Normal { from, to } => from != to && spec::owned_by(v.board[from], v.white_to_move),
        sm @ SMove::Promo { .. } | sm @ SMove::EnPassant { .. } => spec::pseudo_simple(&v, sm),
        SMove::CastleShort | SMove::CastleLong => adapt::sq(g.get_king_position(g.player())) == (if v.white_to_move { 4 } else { 60 }),
    }
}

/// C12 printer: uci_notation(m) is the standard long-algebraic text of m (from, to, lower-case
/// promotion letter; castling as the king's two-square move), per move kind
fn uci_print_case(kind: u8) {
    let m = crate::chess::verif_chess::sym_move(kind);
    let white = match m {
        Move::Normal { piece, .. } => adapt::is_white(piece.owner),
        Move::Promotion { owner, .. } | Move::EnPassant { owner, .. } | Move::CastlingShort { owner } | Move::CastlingLong { owner } => adapt::is_white(owner),
    };
    let want = spec::uci_text(adapt::smove_of(&m), white);
    assert!(text5_eq(&m.uci_notation(), &want), "C12: uci_notation is not the standard long-algebraic text of the move");
    vcover!(!white, "black move reachable");
}
macro_rules! uci_print { ($n:ident, $k:expr) => {
    #[cfg_attr(kani, kani::proof)] #[cfg_attr(kani, kani::unwind(9))] #[cfg_attr(verif_replay, test)]
    pub fn $n() { uci_print_case($k) } } }
uci_print!(c12_print_normal, 0);
uci_print!(c12_print_promotion, 1);
uci_print!(c12_print_enpassant, 2);
uci_print!(c12_print_castling_short, 3);
uci_print!(c12_print_castling_long, 4);

fn str_of<'a>(b: &'a [u8]) -> &'a str { unsafe { core::str::from_utf8_unchecked(b) } }

/// C12 round trip: for every acceptable move m of the position, reading its standard text back in the
/// same position gives exactly m (so distinct legal moves have distinct texts)
fn uci_roundtrip_case(kind: u8) {
    let g = parse_game();
    let m = crate::chess::verif_chess::sym_move(kind);
    let v = adapt::view_of(&g);
    nd::assume(v.ep <= 8);
    nd::assume(crate::chess::verif_chess::king_cache_ok(&g, true) && crate::chess::verif_chess::king_cache_ok(&g, false));
    nd::assume(spec::count(&v.board, spec::K) == 1 && spec::count(&v.board, spec::K | spec::BLACK) == 1);
    nd::assume(acceptable(&g, &m));
    // the parts of legality the round trip depends on: pawn moves are real pawn moves, king moves are
    // single steps (a two-square king move is written like castling), e.p. lands on an empty square (WF7)
    nd::assume(match (adapt::smove_of(&m), &m) {
        (SMove::Normal { from, to }, Move::Normal { piece, .. }) => match piece.piece_type {
            PieceType::Pawn => !spec::owned_by(v.board[to], v.white_to_move) && spec::pawn_normal_ok(&v, from, to),
            PieceType::King => spec::piece_move_ok(&v, from, to, spec::K),
            _ => true,
        },
        (SMove::EnPassant { to, .. }, _) => v.board[to] == spec::EMPTY,
        _ => true,
    });
    let t = spec::uci_text(adapt::smove_of(&m), v.white_to_move);
    #[cfg(not(kani))]
    eprintln!("position: {}\nmove: {}", adapt::show_view(&v), adapt::show_move(&m));
    let back = if kind == 1 { Move::from_uci_notation(str_of(&t.b[..5]), &g) } else { Move::from_uci_notation(str_of(&t.b[..4]), &g) };
    assert!(back == Some(m), "C12: reading a legal move's text back in the same position does not give the same move");
    vcover!(!v.white_to_move, "black to move reachable");
}
macro_rules! uci_rt { ($n:ident, $k:expr) => {
    #[cfg_attr(kani, kani::proof)] #[cfg_attr(kani, kani::unwind(9))] #[cfg_attr(verif_replay, test)]
    pub fn $n() { uci_roundtrip_case($k) } } }
uci_rt!(c12_roundtrip_normal, 0);
uci_rt!(c12_roundtrip_promotion, 1);
uci_rt!(c12_roundtrip_enpassant, 2);
uci_rt!(c12_roundtrip_castling_short, 3);
uci_rt!(c12_roundtrip_castling_long, 4);

/// C12 exactness: whatever string of N ASCII bytes is given, IF the parser answers Some(m) and m is
/// acceptable (could be a member of the legal list), THEN the string is exactly m's standard text.
/// Hence a string that is not the text of a legal move can never be accepted as some legal move.
fn uci_exact_case<const N: usize>() -> bool {
    let g = parse_game();
    let v = adapt::view_of(&g);
    nd::assume(v.ep <= 8);
    nd::assume(crate::chess::verif_chess::king_cache_ok(&g, true) && crate::chess::verif_chess::king_cache_ok(&g, false));
    nd::assume(spec::count(&v.board, spec::K) == 1 && spec::count(&v.board, spec::K | spec::BLACK) == 1);
    let mut bytes = [0u8; N];
    let mut i = 0;
    while i < N { bytes[i] = nd::u8_in(1, 127); i += 1; }
    let s = str_of(&bytes);
    #[cfg(not(kani))]
    eprintln!("position: {}\nstring: {:?}", adapt::show_view(&v), s);
    if let Some(m) = Move::from_uci_notation(s, &g) {
        if acceptable(&g, &m) {
            let t = spec::uci_text(adapt::smove_of(&m), v.white_to_move);
            assert!(t.eq_bytes(&bytes), "C12: a string that is not the standard text of a move is read as that (acceptable) move");
        }
    }
    Move::from_uci_notation(s, &g).is_some()
}
#[cfg_attr(kani, kani::proof)] #[cfg_attr(kani, kani::unwind(9))] #[cfg_attr(verif_replay, test)]
pub fn c12_exact_4_bytes() { let acc = uci_exact_case::<4>(); vcover!(acc, "accepted 4-byte string reachable"); }
#[cfg_attr(kani, kani::proof)] #[cfg_attr(kani, kani::unwind(9))] #[cfg_attr(verif_replay, test)]
pub fn c12_exact_5_bytes() { let acc = uci_exact_case::<5>(); vcover!(acc, "accepted 5-byte string reachable"); }
#[cfg_attr(kani, kani::proof)] #[cfg_attr(kani, kani::unwind(9))] #[cfg_attr(verif_replay, test)]
pub fn c12_exact_6_bytes() { let acc = uci_exact_case::<6>(); vcover!(!acc, "rejected 6-byte string reachable"); }
#[cfg_attr(kani, kani::proof)] #[cfg_attr(kani, kani::unwind(9))] #[cfg_attr(verif_replay, test)]
pub fn c12_exact_7_bytes() { let acc = uci_exact_case::<7>(); vcover!(!acc, "rejected 7-byte string reachable"); }
/// shorter strings are never accepted
#[cfg_attr(kani, kani::proof)] #[cfg_attr(kani, kani::unwind(9))] #[cfg_attr(verif_replay, test)]
pub fn c12_short_strings_rejected() {
    let g = parse_game();
    let bytes = [nd::u8_in(1, 127), nd::u8_in(1, 127), nd::u8_in(1, 127)];
    let n = nd::usize_below(4);
    assert!(Move::from_uci_notation(str_of(&bytes[..n]), &g).is_none(), "C12: a string shorter than four characters is accepted");
}
