//! c_move.rs -- child module of `chess::move_struct`: contracts of the move text functions
//! (C20 move record, C12 UCI text).
use super::*;
use crate::chess::verif_chess::{adapt, mk};
use crate::nd;
use crate::spec::{self, SMove};

fn same(s: &str, t: &spec::Text<8>) -> bool { t.eq_bytes(s.as_bytes()) }

/// board fragment on which the spec renders a move: only the two squares the text depends on
fn two_square_board(from: usize, fc: u8, to: usize, tc: u8) -> spec::Board {
    let mut b = [0u8; 64];
    b[to] = tc;
    b[from] = fc;
    b
}

/// C20: record text of a Normal move == piece letter (none for pawns), origin file, `x` iff capture,
/// destination square -- for every piece, every pair of squares, every captured content.
/// Case split (pawn?, capture?) only to keep the String length concrete per harness; the four
/// cases partition the domain.
fn record_normal_case(pawn: bool, capture: bool) {
    let piece = mk::sym_piece();
    let (start, end) = (mk::sym_pos(), mk::sym_pos());
    let captured = mk::sym_place();
    nd::assume(adapt::sq(start) != adapt::sq(end));
    nd::assume((piece.piece_type == PieceType::Pawn) == pawn && captured.is_some() == capture);
    let m = Move::Normal { piece, start, end, captured_piece: captured };
    let text = m.pgn_notation();
    let b = two_square_board(adapt::sq(start), adapt::code_of(Some(piece)), adapt::sq(end), adapt::code_of(captured));
    let want = spec::record_text(&b, adapt::smove_of(&m), adapt::is_white(piece.owner));
    assert!(same(&text, &want), "C20: move record of a normal move differs from the specified text");
    vcover!(adapt::sq(end) == 63, "h8 destination reachable");
}
macro_rules! normal_case { ($n:ident, $p:expr, $c:expr) => {
    #[cfg_attr(kani, kani::proof)] #[cfg_attr(kani, kani::unwind(9))] #[cfg_attr(verif_replay, test)]
    pub fn $n() { record_normal_case($p, $c) } } }
normal_case!(c20_record_normal_pawn_quiet, true, false);
normal_case!(c20_record_normal_pawn_capture, true, true);
normal_case!(c20_record_normal_piece_quiet, false, false);
normal_case!(c20_record_normal_piece_capture, false, true);

/// C20: record text of a promotion names the origin file, `x` iff capture, destination, `=` and
/// the piece actually promoted to (Q, R, B or N).
fn record_promotion_case(capture: bool) {
    let owner = mk::sym_player();
    let new_piece = mk::sym_promo_type();
    let (start, end) = (mk::sym_pos(), mk::sym_pos());
    let captured = mk::sym_place();
    nd::assume(adapt::sq(start) != adapt::sq(end));
    nd::assume(captured.is_some() == capture);
    let m = Move::Promotion { owner, new_piece, start, end, captured_piece: captured };
    let text = m.pgn_notation();
    let w = adapt::is_white(owner);
    let b = two_square_board(adapt::sq(start), spec::code(spec::P, w), adapt::sq(end), adapt::code_of(captured));
    let want = spec::record_text(&b, adapt::smove_of(&m), w);
    assert!(text.len() >= 2 && text.as_bytes()[text.len() - 2] == b'=', "C20: promotion record lacks `=`");
    let letter = text.as_bytes()[text.len() - 1];
    let want_letter = match new_piece { PieceType::Queen => b'Q', PieceType::Rook => b'R', PieceType::Bishop => b'B', _ => b'N' };
    assert!(letter == want_letter, "C20: promotion record names a different piece than the one promoted to");
    assert!(same(&text, &want), "C20: move record of a promotion differs from the specified text");
    vcover!(new_piece == PieceType::Knight, "under-promotion reachable");
}
#[cfg_attr(kani, kani::proof)] #[cfg_attr(kani, kani::unwind(9))] #[cfg_attr(verif_replay, test)]
pub fn c20_record_promotion_quiet() { record_promotion_case(false) }
#[cfg_attr(kani, kani::proof)] #[cfg_attr(kani, kani::unwind(9))] #[cfg_attr(verif_replay, test)]
pub fn c20_record_promotion_capture() { record_promotion_case(true) }

/// C20: castling records.
#[cfg_attr(kani, kani::proof)] #[cfg_attr(kani, kani::unwind(9))] #[cfg_attr(verif_replay, test)]
pub fn c20_record_castling_short() {
    let owner = mk::sym_player();
    let m = Move::CastlingShort { owner };
    let want = spec::record_text(&[0u8; 64], adapt::smove_of(&m), adapt::is_white(owner));
    assert!(same(&m.pgn_notation(), &want), "C20: record of short castling is not O-O");
    vcover!(true, "reachable");
}
#[cfg_attr(kani, kani::proof)] #[cfg_attr(kani, kani::unwind(9))] #[cfg_attr(verif_replay, test)]
pub fn c20_record_castling_long() {
    let owner = mk::sym_player();
    let m = Move::CastlingLong { owner };
    let want = spec::record_text(&[0u8; 64], adapt::smove_of(&m), adapt::is_white(owner));
    assert!(same(&m.pgn_notation(), &want), "C20: record of long castling is not O-O-O");
    vcover!(true, "reachable");
}
/// C20: en-passant record: origin file, x, destination file, rank 6 (White) / 3 (Black).
#[cfg_attr(kani, kani::proof)] #[cfg_attr(kani, kani::unwind(9))] #[cfg_attr(verif_replay, test)]
pub fn c20_record_enpassant() {
    let owner = mk::sym_player();
    let w = adapt::is_white(owner);
    let (sc, ec) = (nd::i8_in(0, 7), nd::i8_in(0, 7));
    let m = Move::EnPassant { owner, start_col: sc, end_col: ec };
    let sm = adapt::smove_of(&m);
    let b = match sm { SMove::EnPassant { from, to } => two_square_board(from, spec::code(spec::P, w), to, 0), _ => [0u8; 64] };
    let want = spec::record_text(&b, sm, w);
    assert!(same(&m.pgn_notation(), &want), "C20: move record of en passant differs from the specified text");
    vcover!(!w && ec == 7, "black en passant to the h file reachable");
}
