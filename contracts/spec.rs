//! spec.rs -- the hand-written statement of what the properties refer to: the rules of chess
//! (attack relation, pseudo-legal and legal moves, successor position), the published Zobrist key
//! layout, the piece-square evaluation, and the standard text renderings (UCI, FEN, move record).
//!
//! TRUSTED.  Nothing in this file calls, or is derived from, engine code.  It works on its own
//! encodings: squares are `usize` 0..64 (`rank*8 + file`, a1 = 0, h8 = 63), square contents are
//! `u8` codes (0 empty; 1..=6 white P N B R Q K; 9..=14 black P N B R Q K).
//!
//! The attack relation is written from the ATTACKER's point of view (does the piece on `from`
//! reach `to`?), the engine scans outward from the target; the two share no traversal.

pub const EMPTY: u8 = 0;
pub const P: u8 = 1;
pub const N: u8 = 2;
pub const B: u8 = 3;
pub const R: u8 = 4;
pub const Q: u8 = 5;
pub const K: u8 = 6;
pub const BLACK: u8 = 8;

#[inline] pub fn valid_code(c: u8) -> bool { c == 0 || (1 <= c && c <= 6) || (9 <= c && c <= 14) }
#[inline] pub fn is_white(c: u8) -> bool { 1 <= c && c <= 6 }
#[inline] pub fn is_black(c: u8) -> bool { 9 <= c && c <= 14 }
#[inline] pub fn kind(c: u8) -> u8 { c & 7 }
#[inline] pub fn owned_by(c: u8, white: bool) -> bool { if white { is_white(c) } else { is_black(c) } }
#[inline] pub fn code(k: u8, white: bool) -> u8 { if white { k } else { k | BLACK } }
#[inline] pub fn rank(sq: usize) -> i8 { (sq / 8) as i8 }
#[inline] pub fn file(sq: usize) -> i8 { (sq % 8) as i8 }
#[inline] pub fn sq_of(rank: i8, file: i8) -> usize { (rank as usize) * 8 + file as usize }
#[inline] pub fn on_board(rank: i8, file: i8) -> bool { 0 <= rank && rank < 8 && 0 <= file && file < 8 }
#[inline] fn abs(x: i8) -> i8 { if x < 0 { -x } else { x } }
#[inline] fn sgn(x: i8) -> i8 { if x < 0 { -1 } else if x > 0 { 1 } else { 0 } }

pub type Board = [u8; 64];

/// The abstract position: exactly what the rules care about.
#[derive(Clone, Copy, PartialEq, Eq)]
pub struct View {
    pub board: Board,
    pub white_to_move: bool,
    /// castling rights: white king side, white queen side, black king side, black queen side
    pub castle: [bool; 4],
    /// en-passant file 0..=7, or 8 for none
    pub ep: u8,
}

// ------------------------------------------------------------------------------------------------
// attack relation
// ------------------------------------------------------------------------------------------------

/// every square strictly between `from` and `to` (which must share a rank, file or diagonal) is empty
pub fn clear_between(b: &Board, from: usize, to: usize) -> bool {
    let (dr, dc) = (rank(to) - rank(from), file(to) - file(from));
    let (sr, sc) = (sgn(dr), sgn(dc));
    let dist = if abs(dr) > abs(dc) { abs(dr) } else { abs(dc) };
    let mut ok = true;
    let mut k: i8 = 1;
    while k < 7 {
        if k < dist {
            let s = sq_of(rank(from) + k * sr, file(from) + k * sc);
            if b[s] != EMPTY { ok = false; }
        }
        k += 1;
    }
    ok
}

/// does the piece standing on `from` attack square `to`?
pub fn attacks(b: &Board, from: usize, to: usize) -> bool {
    let c = b[from];
    if c == EMPTY { return false; }
    attacks_as(b, from, to, kind(c), is_white(c))
}

/// would a piece of kind `k` and colour `white` standing on `from` attack `to`?  (`b[from]` itself is not read)
pub fn attacks_as(b: &Board, from: usize, to: usize, k: u8, white: bool) -> bool {
    if from == to { return false; }
    let (dr, dc) = (rank(to) - rank(from), file(to) - file(from));
    let (ar, ac) = (abs(dr), abs(dc));
    if k == N { (ar == 1 && ac == 2) || (ar == 2 && ac == 1) }
    else if k == K { ar <= 1 && ac <= 1 }
    else if k == P { ac == 1 && dr == (if white { 1 } else { -1 }) }
    else if k == R { (dr == 0 || dc == 0) && clear_between(b, from, to) }
    else if k == B { ar == ac && clear_between(b, from, to) }
    else if k == Q { (dr == 0 || dc == 0 || ar == ac) && clear_between(b, from, to) }
    else { false }
}

/// is `sq` attacked by some piece of colour `by_white`?
pub fn attacked(b: &Board, sq: usize, by_white: bool) -> bool {
    // nested 8 x 8 so that every loop in the spec has at most 8 iterations (one unwinding bound, 9, fits all)
    let mut r = false;
    let mut rk = 0;
    while rk < 8 {
        let mut fl = 0;
        while fl < 8 {
            let from = rk * 8 + fl;
            if owned_by(b[from], by_white) && attacks(b, from, sq) { r = true; }
            fl += 1;
        }
        rk += 1;
    }
    r
}

/// square of the (first) king of the given colour, 64 if none
pub fn king_sq(b: &Board, white: bool) -> usize {
    let mut r = 64;
    let mut rk = 8;
    while rk > 0 {
        rk -= 1;
        let mut fl = 8;
        while fl > 0 {
            fl -= 1;
            if b[rk * 8 + fl] == code(K, white) { r = rk * 8 + fl; }
        }
    }
    r
}

pub fn count(b: &Board, c: u8) -> u32 {
    let mut n = 0;
    let mut rk = 0;
    while rk < 8 {
        let mut fl = 0;
        while fl < 8 { if b[rk * 8 + fl] == c { n += 1; } fl += 1; }
        rk += 1;
    }
    n
}

// ------------------------------------------------------------------------------------------------
// moves (spec representation) and the successor position
// ------------------------------------------------------------------------------------------------

#[derive(Clone, Copy, PartialEq, Eq)]
pub enum SMove {
    /// any non-special move, capture or not (king and rook moves lose rights, double pushes set e.p.)
    Normal { from: usize, to: usize },
    /// pawn reaches the last rank and becomes `kind` (N, B, R or Q)
    Promo { from: usize, to: usize, kind: u8 },
    /// pawn on `from` captures the pawn that just double-pushed, landing on `to`
    EnPassant { from: usize, to: usize },
    CastleShort,
    CastleLong,
}

pub const A1: usize = 0; pub const E1: usize = 4; pub const H1: usize = 7;
pub const A8: usize = 56; pub const E8: usize = 60; pub const H8: usize = 63;

/// geometric validity of a move of the side to move, king safety NOT considered
/// (castling does include its own attack conditions, as the rules define castling with them)
pub fn pseudo(v: &View, m: SMove) -> bool {
    let w = v.white_to_move;
    pseudo_att(v, m, |s| attacked(&v.board, s, !w))
}

/// `pseudo` with the attack test of the castling conditions as a parameter (`att(sq)`: is `sq`
/// attacked by the side NOT to move) -- used where an engine callee's answer stands for it
pub fn pseudo_att<F: Fn(usize) -> bool>(v: &View, m: SMove, att: F) -> bool {
    match m {
        SMove::CastleShort => castle_ok(v, true, att),
        SMove::CastleLong => castle_ok(v, false, att),
        _ => pseudo_simple(v, m),
    }
}

/// castling conditions: right held, squares between king and rook empty, king's square and the two
/// squares it crosses not attacked (the b-file square may be attacked)
pub fn castle_ok<F: Fn(usize) -> bool>(v: &View, short: bool, att: F) -> bool {
    let w = v.white_to_move;
    let b = &v.board;
    if short {
        let (e, f, g) = if w { (E1, 5, 6) } else { (E8, 61, 62) };
        v.castle[if w { 0 } else { 2 }] && b[f] == EMPTY && b[g] == EMPTY && !att(e) && !att(f) && !att(g)
    } else {
        let (e, d, c, bb) = if w { (E1, 3, 2, 1) } else { (E8, 59, 58, 57) };
        v.castle[if w { 1 } else { 3 }] && b[d] == EMPTY && b[c] == EMPTY && b[bb] == EMPTY && !att(e) && !att(d) && !att(c)
    }
}

/// non-pawn piece of kind `k` (N, B, R, Q, K) of the side to move standing on `from`: is from->to a
/// geometrically valid move (own piece there is NOT checked: the caller knows which piece it is)
pub fn piece_move_ok(v: &View, from: usize, to: usize, k: u8) -> bool {
    from < 64 && to < 64 && from != to && !owned_by(v.board[to], v.white_to_move) && attacks_as(&v.board, from, to, k, v.white_to_move)
}

/// Normal / Promotion / EnPassant part of `pseudo`
pub fn pseudo_simple(v: &View, m: SMove) -> bool {
    let w = v.white_to_move;
    let b = &v.board;
    match m {
        SMove::Normal { from, to } => {
            if from >= 64 || to >= 64 || from == to { return false; }
            let c = b[from];
            if !owned_by(c, w) || owned_by(b[to], w) { return false; }
            let k = kind(c);
            if k == P { pawn_normal_ok(v, from, to) } else { attacks_as(b, from, to, k, w) }
        }
        SMove::Promo { from, to, kind: nk } => {
            if from >= 64 || to >= 64 { return false; }
            let c = b[from];
            if c != code(P, w) { return false; }
            if !(nk == N || nk == B || nk == R || nk == Q) { return false; }
            let fwd: i8 = if w { 1 } else { -1 };
            let (dr, dc) = (rank(to) - rank(from), file(to) - file(from));
            if rank(to) != (if w { 7 } else { 0 }) || dr != fwd { return false; }
            if dc == 0 { b[to] == EMPTY } else if abs(dc) == 1 { owned_by(b[to], !w) } else { false }
        }
        SMove::EnPassant { from, to } => {
            if from >= 64 || to >= 64 || v.ep >= 8 { return false; }
            let fwd: i8 = if w { 1 } else { -1 };
            b[from] == code(P, w)
                && rank(from) == (if w { 4 } else { 3 })
                && rank(to) == rank(from) + fwd
                && file(to) == v.ep as i8
                && abs(file(to) - file(from)) == 1
        }
        _ => false,
    }
}

/// pawn of the side to move on `from`: push, double push or capture to `to`, not onto the last rank
pub fn pawn_normal_ok(v: &View, from: usize, to: usize) -> bool {
    let w = v.white_to_move;
    let b = &v.board;
    let fwd: i8 = if w { 1 } else { -1 };
    let (dr, dc) = (rank(to) - rank(from), file(to) - file(from));
    let last: i8 = if w { 7 } else { 0 };
    if rank(to) == last { return false; } // that is a promotion, not a normal move
    if dc == 0 && dr == fwd { b[to] == EMPTY }
    else if dc == 0 && dr == 2 * fwd {
        rank(from) == (if w { 1 } else { 6 }) && b[to] == EMPTY && b[sq_of(rank(from) + fwd, file(from))] == EMPTY
    }
    else if abs(dc) == 1 && dr == fwd { owned_by(b[to], !w) }
    else { false }
}

/// the position the rules prescribe after `m` (which is assumed pseudo-legal in `v`)
pub fn apply(v: &View, m: SMove) -> View {
    let w = v.white_to_move;
    let mut n = *v;
    n.white_to_move = !w;
    n.ep = 8;
    match m {
        SMove::Normal { from, to } => {
            let c = v.board[from];
            n.board[from] = EMPTY;
            n.board[to] = c;
            if kind(c) == P && abs(rank(to) - rank(from)) == 2 {
                // en-passant opportunity recorded exactly when an enemy pawn stands beside the landing square
                let enemy_pawn = code(P, !w);
                let f = file(to);
                let left = f > 0 && v.board[to - 1] == enemy_pawn;
                let right = f < 7 && v.board[to + 1] == enemy_pawn;
                if left || right { n.ep = f as u8; }
            }
            lose_rights(&mut n.castle, from, to);
        }
        SMove::Promo { from, to, kind: nk } => {
            n.board[from] = EMPTY;
            n.board[to] = code(nk, w);
            lose_rights(&mut n.castle, from, to);
        }
        SMove::EnPassant { from, to } => {
            let c = v.board[from];
            n.board[from] = EMPTY;
            n.board[to] = c;
            n.board[sq_of(rank(from), file(to))] = EMPTY;
        }
        SMove::CastleShort => {
            let r0 = if w { 0 } else { 56 };
            n.board[r0 + 4] = EMPTY; n.board[r0 + 7] = EMPTY;
            n.board[r0 + 6] = code(K, w); n.board[r0 + 5] = code(R, w);
            if w { n.castle[0] = false; n.castle[1] = false; } else { n.castle[2] = false; n.castle[3] = false; }
        }
        SMove::CastleLong => {
            let r0 = if w { 0 } else { 56 };
            n.board[r0 + 4] = EMPTY; n.board[r0] = EMPTY;
            n.board[r0 + 2] = code(K, w); n.board[r0 + 3] = code(R, w);
            if w { n.castle[0] = false; n.castle[1] = false; } else { n.castle[2] = false; n.castle[3] = false; }
        }
    }
    n
}

/// A castling right needs king and rook on their home squares; any move from or onto one of those
/// squares ends the right (the piece left, or was captured there).
fn lose_rights(c: &mut [bool; 4], from: usize, to: usize) {
    if from == E1 || to == E1 { c[0] = false; c[1] = false; }
    if from == E8 || to == E8 { c[2] = false; c[3] = false; }
    if from == H1 || to == H1 { c[0] = false; }
    if from == A1 || to == A1 { c[1] = false; }
    if from == H8 || to == H8 { c[2] = false; }
    if from == A8 || to == A8 { c[3] = false; }
}

/// legal = pseudo-legal and the mover's king is not attacked afterwards
pub fn legal(v: &View, m: SMove) -> bool {
    if !pseudo(v, m) { return false; }
    let n = apply(v, m);
    let k = king_sq(&n.board, v.white_to_move);
    k < 64 && !attacked(&n.board, k, !v.white_to_move)
}

// ------------------------------------------------------------------------------------------------
// Zobrist keys: the published layout of zobrist_bytes.bin (little-endian u64 at byte offsets
//   side key: 0      empty-square key: 1      state key i: 2 + 8*i      piece key: 259 + 8*(12*sq + p)
//   with p = 0..5 white Q R B N P K, 6..11 black Q R B N P K)
// ------------------------------------------------------------------------------------------------

pub static KEY_BYTES: &[u8; 8208] = include_bytes!(concat!(env!("CARGO_MANIFEST_DIR"), "/src/zobrist_bytes.bin"));

pub const fn le64(off: usize) -> u64 {
    let b = KEY_BYTES;
    (b[off] as u64) | (b[off + 1] as u64) << 8 | (b[off + 2] as u64) << 16 | (b[off + 3] as u64) << 24
        | (b[off + 4] as u64) << 32 | (b[off + 5] as u64) << 40 | (b[off + 6] as u64) << 48 | (b[off + 7] as u64) << 56
}

pub const SIDE_KEY: u64 = le64(0);
pub const EMPTY_KEY: u64 = le64(1);
pub const fn state_key_at(i: usize) -> u64 { le64(2 + 8 * i) }
pub const fn piece_key_at(sq: usize, p: usize) -> u64 { le64(259 + 8 * (12 * sq + p)) }

/// const tables so that look-ups with symbolic indices are array reads, not byte arithmetic
pub static STATE_KEYS: [u64; 256] = {
    let mut t = [0u64; 256];
    let mut i = 0;
    while i < 256 { t[i] = state_key_at(i); i += 1; }
    t
};
/// [sq][code] with the spec's content codes (0 empty, 1..=6 white PNBRQK, 9..=14 black); unused codes 0
pub static SQ_KEYS: [[u64; 16]; 64] = {
    let mut t = [[0u64; 16]; 64];
    let mut s = 0;
    while s < 64 {
        t[s][0] = EMPTY_KEY;
        // layout order of the file: Q R B N P K
        t[s][Q as usize] = piece_key_at(s, 0);
        t[s][R as usize] = piece_key_at(s, 1);
        t[s][B as usize] = piece_key_at(s, 2);
        t[s][N as usize] = piece_key_at(s, 3);
        t[s][P as usize] = piece_key_at(s, 4);
        t[s][K as usize] = piece_key_at(s, 5);
        t[s][(Q | BLACK) as usize] = piece_key_at(s, 6);
        t[s][(R | BLACK) as usize] = piece_key_at(s, 7);
        t[s][(B | BLACK) as usize] = piece_key_at(s, 8);
        t[s][(N | BLACK) as usize] = piece_key_at(s, 9);
        t[s][(P | BLACK) as usize] = piece_key_at(s, 10);
        t[s][(K | BLACK) as usize] = piece_key_at(s, 11);
        s += 1;
    }
    t
};

#[inline] pub fn key(sq: usize, c: u8) -> u64 { SQ_KEYS[sq][c as usize] }

/// bitfield of the state key: low nibble e.p. file (8 = none), bits 4..7 = WK, WQ, BK, BQ rights
pub fn state_bits(castle: &[bool; 4], ep: u8) -> u8 {
    (ep & 15) | (castle[0] as u8) << 4 | (castle[1] as u8) << 5 | (castle[2] as u8) << 6 | (castle[3] as u8) << 7
}

/// the hash the published key file assigns to a position
pub fn hash_of(v: &View) -> u64 {
    let mut h = 0u64;
    let mut rk = 0;
    while rk < 8 {
        let mut fl = 0;
        while fl < 8 { h ^= key(rk * 8 + fl, v.board[rk * 8 + fl]); fl += 1; }
        rk += 1;
    }
    if !v.white_to_move { h ^= SIDE_KEY; }
    h ^ STATE_KEYS[state_bits(&v.castle, v.ep) as usize]
}

// ------------------------------------------------------------------------------------------------
// evaluation: material + piece-square value, tables as published in the "Simplified Evaluation
// Function" the engine cites, from White's point of view with a8 first; Black's value is the
// negated value of the vertically mirrored square.  The tables themselves are read from the engine
// (scores.rs is data, not code); the spec fixes HOW a table is applied.
// ------------------------------------------------------------------------------------------------

/// value of content `c` on `sq` given the table (a8-first layout) for its kind
pub fn sq_score(table: &[i16; 64], sq: usize, c: u8) -> i16 {
    if c == EMPTY { return 0; }
    if is_white(c) { table[(7 - sq / 8) * 8 + sq % 8] } else { -table[(sq / 8) * 8 + sq % 8] }
}

pub fn mirror_sq(sq: usize) -> usize { (7 - sq / 8) * 8 + sq % 8 }
pub fn mirror_code(c: u8) -> u8 { if c == EMPTY { 0 } else { c ^ BLACK } }

// ------------------------------------------------------------------------------------------------
// text renderings (fixed-size byte buffers; `len` bytes are meaningful)
// ------------------------------------------------------------------------------------------------

#[derive(Clone, Copy, PartialEq, Eq)]
pub struct Text<const CAP: usize> { pub b: [u8; CAP], pub len: usize }
impl<const CAP: usize> Text<CAP> {
    pub fn new() -> Self { Text { b: [0; CAP], len: 0 } }
    pub fn push(&mut self, c: u8) { self.b[self.len] = c; self.len += 1; }
    pub fn eq_bytes(&self, s: &[u8]) -> bool {
        if s.len() != self.len { return false; }
        let mut i = 0;
        let mut ok = true;
        while i < CAP { if i < self.len && self.b[i] != s[i] { ok = false; } i += 1; }
        ok
    }
}

pub fn file_char(f: i8) -> u8 { b'a' + f as u8 }
pub fn rank_char(r: i8) -> u8 { b'1' + r as u8 }

/// UCI long algebraic text: from-square, to-square, lower-case promotion letter; castling as the
/// king's two-square move
pub fn uci_text(m: SMove, white: bool) -> Text<5> {
    let mut t = Text::new();
    let (from, to, promo) = match m {
        SMove::Normal { from, to } => (from, to, 0),
        SMove::EnPassant { from, to } => (from, to, 0),
        SMove::Promo { from, to, kind } => (from, to, kind),
        SMove::CastleShort => if white { (E1, 6, 0) } else { (E8, 62, 0) },
        SMove::CastleLong => if white { (E1, 2, 0) } else { (E8, 58, 0) },
    };
    t.push(file_char(file(from))); t.push(rank_char(rank(from)));
    t.push(file_char(file(to))); t.push(rank_char(rank(to)));
    if promo != 0 {
        t.push(if promo == Q { b'q' } else if promo == R { b'r' } else if promo == B { b'b' } else { b'n' });
    }
    t
}

/// FEN letter of a content code
pub fn fen_letter(c: u8) -> u8 {
    let l = match kind(c) { 1 => b'P', 2 => b'N', 3 => b'B', 4 => b'R', 5 => b'Q', _ => b'K' };
    if is_black(c) { l + 32 } else { l }
}

/// the engine's move-record ("PGN-like") text as described by property C20: piece letter (none for
/// pawns), origin file, `x` on capture, destination square, `=Q/R/B/N` on promotion, O-O / O-O-O.
/// Promotions: origin file, [x], destination, `=`, piece.
pub fn record_text(b: &Board, m: SMove, white: bool) -> Text<8> {
    let mut t = Text::new();
    match m {
        SMove::CastleShort => { t.push(b'O'); t.push(b'-'); t.push(b'O'); }
        SMove::CastleLong => { t.push(b'O'); t.push(b'-'); t.push(b'O'); t.push(b'-'); t.push(b'O'); }
        SMove::Normal { from, to } => {
            let k = kind(b[from]);
            if k != P { t.push(match k { 2 => b'N', 3 => b'B', 4 => b'R', 5 => b'Q', _ => b'K' }); }
            t.push(file_char(file(from)));
            if b[to] != EMPTY { t.push(b'x'); }
            t.push(file_char(file(to))); t.push(rank_char(rank(to)));
        }
        SMove::EnPassant { from, to } => {
            t.push(file_char(file(from))); t.push(b'x');
            t.push(file_char(file(to))); t.push(rank_char(rank(to)));
        }
        SMove::Promo { from, to, kind: nk } => {
            t.push(file_char(file(from)));
            if b[to] != EMPTY { t.push(b'x'); }
            t.push(file_char(file(to))); t.push(rank_char(rank(to)));
            t.push(b'=');
            t.push(match nk { 2 => b'N', 3 => b'B', 4 => b'R', _ => b'Q' });
        }
    }
    t
}

// ------------------------------------------------------------------------------------------------
// FEN text (C11): one rank of the placement field, and the fields after it
// ------------------------------------------------------------------------------------------------

/// placement text of one rank: letters, run-length digits for empty squares, `/` after every rank but the first
pub fn fen_rank_text(b: &Board, rank: usize) -> Text<9> {
    let mut t = Text::new();
    let mut empty: u8 = 0;
    let mut f = 0;
    while f < 8 {
        let c = b[rank * 8 + f];
        if c == EMPTY { empty += 1; } else {
            if empty > 0 { t.push(b'0' + empty); empty = 0; }
            t.push(fen_letter(c));
        }
        f += 1;
    }
    if empty > 0 { t.push(b'0' + empty); }
    if rank > 0 { t.push(b'/'); }
    t
}

/// ` w KQkq e3 `: side, castling rights, e.p. square (rank 6 when White is to move, 3 when Black is), each
/// preceded by one space, and the space that introduces the counters.  The two counters that follow
/// (half-move clock, full-move number) are outside every property: `fen_counters_ok` only asks for two
/// non-empty decimal numbers separated by one space.
pub fn fen_tail_text(v: &View) -> Text<16> {
    let mut t = Text::new();
    t.push(b' ');
    t.push(if v.white_to_move { b'w' } else { b'b' });
    t.push(b' ');
    let mut any = false;
    if v.castle[0] { t.push(b'K'); any = true; }
    if v.castle[1] { t.push(b'Q'); any = true; }
    if v.castle[2] { t.push(b'k'); any = true; }
    if v.castle[3] { t.push(b'q'); any = true; }
    if !any { t.push(b'-'); }
    t.push(b' ');
    if v.ep < 8 { t.push(b'a' + v.ep); t.push(if v.white_to_move { b'6' } else { b'3' }); } else { t.push(b'-'); }
    t.push(b' ');
    t
}

/// `digits space digits` (at most 7 bytes looked at)
pub fn fen_counters_ok(s: &[u8]) -> bool {
    let n = s.len();
    if n < 3 || n > 7 { return false; }
    let mut spaces = 0;
    let mut ok = true;
    let mut i = 0;
    while i < 7 {
        if i < n {
            let c = s[i];
            if c == b' ' { spaces += 1; if i == 0 || i == n - 1 { ok = false; } }
            else if !(b'0' <= c && c <= b'9') { ok = false; }
        }
        i += 1;
    }
    ok && spaces == 1
}
