pub fn placeholder() {}
