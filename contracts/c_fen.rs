//! c_fen.rs -- contracts of the FEN reader Game::new, slice by slice (C17, and the importer half of
//! C04 / C16), and of the FEN writer Game::fen (C11).
use super::*;
use super::super::*;
use crate::nd;
use crate::spec;

#[cfg(kani)]
pub fn backtrace_disabled() -> std::backtrace::Backtrace { std::backtrace::Backtrace::disabled() }
pub fn str_of<'a>(b: &'a [u8]) -> &'a str { unsafe { core::str::from_utf8_unchecked(b) } }

fn letter_code(ch: char) -> u8 {
    match ch {
        'P' => spec::P, 'N' => spec::N, 'B' => spec::B, 'R' => spec::R, 'Q' => spec::Q, 'K' => spec::K,
        'p' => spec::P | 8, 'n' => spec::N | 8, 'b' => spec::B | 8, 'r' => spec::R | 8, 'q' => spec::Q | 8, 'k' => spec::K | 8,
        _ => 0,
    }
}

/// Contract of one step of the board-field scanner (slice verif_fen_step), over ALL chars and all
/// scanner states (row 0..=7, col 0..=8), squares not yet scanned being empty with zero cached score:
///   (i)   never panics (Position::new_assert, arithmetic: Kani's own checks)
///   (ii)  Ok => 0 <= row' <= 7 and 0 <= col' <= 8
///   (iii) Ok => the character is `/` at the end of a complete rank (col == 8, row > 0), a digit d with
///         1 <= d <= 8 - col, or one of the 12 piece letters with col < 8   (anything else is malformed)
///   (iv)  the squares (row, col .. col') -- and only they -- now hold what the character denotes, with
///         cached key == published key and cached score == piece-square value of that content; hash and
///         score moved by exactly those amounts; a king's square is recorded
#[cfg_attr(kani, kani::proof)]
#[cfg_attr(kani, kani::unwind(10))]
#[cfg_attr(kani, kani::stub(std::backtrace::Backtrace::capture, backtrace_disabled))]
#[cfg_attr(verif_replay, test)]
pub fn fen_step_contract() {
    let ch = nd::char();
    let (row, col) = (nd::i8_in(0, 7), nd::i8_in(0, 8));
    let mut st = VerifFenScan {
        row, col, hash: nd::u64(), score: nd::i16(),
        board: mk::sym_board(), past_scores: mk::sym_i16x64(), past_hashes: mk::sym_u64x64(),
        white_king_pos: if nd::bool() { Some(mk::sym_pos()) } else { None },
        black_king_pos: if nd::bool() { Some(mk::sym_pos()) } else { None },
    };
    // squares of this rank from col on have not been scanned yet: empty, zero cached score
    let mut f = 0;
    while f < 8 {
        if f >= col { let s = (row as usize) * 8 + f as usize; nd::assume(st.board[s].is_none() && st.past_scores[s] == 0); }
        f += 1;
    }
    nd::assume(-SCORE_BOUND <= st.score && st.score <= SCORE_BOUND);
    let j = mk::sym_sq();
    let before = st;
    let tables = mk::tables(false);
    #[cfg(not(kani))]
    eprintln!("scanner state: row {} col {}, character {:?}", row, col, ch);
    let r = Game::verif_fen_step(ch, &mut st, &tables);
    let ok = r.is_ok();
    core::mem::forget(r);
    if ok {
        assert!(0 <= st.row && st.row <= 7 && 0 <= st.col && st.col <= 8, "C17: scanner leaves the board (row/col out of range)");
        let code = letter_code(ch);
        let digit = if ('1'..='8').contains(&ch) { ch as u8 - b'0' } else { 0 };
        if ch == '/' {
            assert!(col == 8 && row > 0, "C17: `/` accepted before the rank is complete (squares missing) or after the last rank");
            assert!(st.row == row - 1 && st.col == 0, "C17: `/` does not move to the start of the next rank");
            assert!(st.hash == before.hash && st.score == before.score && st.board[j] == before.board[j]
                && st.past_hashes[j] == before.past_hashes[j] && st.past_scores[j] == before.past_scores[j], "C17: `/` changed the board or the totals");
        } else if code != 0 {
            assert!(col < 8, "C17: piece letter accepted beyond the h file");
            let s = (row as usize) * 8 + col as usize;
            assert!(adapt::code_of(st.board[s]) == code, "C17: the square does not hold the piece the letter denotes");
            assert!(st.past_hashes[s] == spec::key(s, code) && st.hash == before.hash ^ spec::key(s, code), "C04/C17: importer hash is not the published key of the piece");
            assert!(st.past_scores[s] == adapt::want_score(s, code, false) && st.score as i32 == before.score as i32 + adapt::want_score(s, code, false) as i32,
                    "C16/C17: importer score is not the piece-square value of the piece");
            assert!(st.row == row && st.col == col + 1, "C17: piece letter does not advance by one file");
            if code == spec::K { assert!(st.white_king_pos.map(adapt::sq) == Some(s), "C17: white king square not recorded"); }
            if code == (spec::K | 8) { assert!(st.black_king_pos.map(adapt::sq) == Some(s), "C17: black king square not recorded"); }
            if j != s { assert!(st.board[j] == before.board[j] && st.past_hashes[j] == before.past_hashes[j] && st.past_scores[j] == before.past_scores[j], "C17: another square changed"); }
        } else {
            assert!(digit >= 1 && (digit as i8) <= 8 - col, "C17: accepted a character that is not `/`, a piece letter or a digit 1..8 that fits the rank (e.g. `0`)");
            assert!(st.row == row && st.col == col + digit as i8, "C17: digit does not advance by its value");
            let (jr, jc) = ((j / 8) as i8, (j % 8) as i8);
            let covered = jr == row && col <= jc && jc < col + digit as i8;
            if covered {
                assert!(st.board[j].is_none() && st.past_scores[j] == 0 && st.past_hashes[j] == spec::EMPTY_KEY, "C04/C17: an empty square is not recorded as empty with the empty-square key");
            } else {
                assert!(st.board[j] == before.board[j] && st.past_hashes[j] == before.past_hashes[j] && st.past_scores[j] == before.past_scores[j], "C17: another square changed");
            }
            assert!(st.hash == before.hash ^ (if digit % 2 == 1 { spec::EMPTY_KEY } else { 0 }) && st.score == before.score, "C04/C17: empty squares not hashed with the empty-square key");
        }
    }
    vcover!(ok && ch == '/', "accepted `/`");
    vcover!(ok && ch == 'k', "accepted black king");
    vcover!(ok && ch == '8', "accepted 8");
    vcover!(!ok, "rejected character");
}

/// side field (slice verif_fen_side): Ok exactly for "w" and "b"
fn fen_side_case<const N: usize>() -> bool {
    let mut b = [0u8; N];
    let mut i = 0;
    while i < N { b[i] = nd::u8_in(1, 127); i += 1; }
    #[cfg(not(kani))]
    eprintln!("side field: {:?}", str_of(&b));
    let r = Game::verif_fen_side(str_of(&b));
    let res = match &r { Ok(p) => Some(*p), Err(_) => None };
    core::mem::forget(r);
    match res {
        Some(p) => {
            assert!(N == 1 && (b[0] == b'w' || b[0] == b'b'), "C17: side field other than `w` / `b` accepted");
            assert!((p == Player::White) == (b[0] == b'w'), "C17: side field read as the other side");
        }
        None => assert!(!(N == 1 && (b[0] == b'w' || b[0] == b'b')), "C17: well-formed side field rejected"),
    }
    res.is_some()
}
macro_rules! strcase { ($name:ident, $f:ident, $n:expr, $cov:expr) => {
    #[cfg_attr(kani, kani::proof)] #[cfg_attr(kani, kani::unwind(10))]
    #[cfg_attr(kani, kani::stub(std::backtrace::Backtrace::capture, backtrace_disabled))]
    #[cfg_attr(verif_replay, test)]
    pub fn $name() { let acc = $f::<$n>(); if $cov { vcover!(acc, "accepted field reachable"); } else { vcover!(!acc, "rejected field reachable"); } }
} }
strcase!(fen_side_1, fen_side_case, 1, true);
strcase!(fen_side_2, fen_side_case, 2, false);
strcase!(fen_side_3, fen_side_case, 3, false);
strcase!(fen_side_4, fen_side_case, 4, false);

/// castling field (slice verif_fen_castling): Ok exactly for "-" or a non-empty set of the letters KQkq
/// without repetition; the rights are exactly the letters present; the e.p. nibble is untouched
fn fen_castling_case<const N: usize>() -> bool {
    let mut b = [0u8; N];
    let mut i = 0;
    while i < N { b[i] = nd::u8_in(1, 127); i += 1; }
    #[cfg(not(kani))]
    eprintln!("castling field: {:?}", str_of(&b));
    let r = Game::verif_fen_castling(str_of(&b), GameState::default());
    let res = match &r { Ok(s) => Some(super::super::gamestate::verif_gamestate::bits(*s)), Err(_) => None };
    core::mem::forget(r);
    let count = |c: u8| { let mut n = 0; let mut i = 0; while i < N { if b[i] == c { n += 1; } i += 1; } n };
    let (nk, nq, nbk, nbq, ndash) = (count(b'K'), count(b'Q'), count(b'k'), count(b'q'), count(b'-'));
    let well_formed = (N == 1 && ndash == 1) || (ndash == 0 && nk <= 1 && nq <= 1 && nbk <= 1 && nbq <= 1 && nk + nq + nbk + nbq == N);
    match res {
        Some(bits) => {
            assert!(well_formed, "C17: malformed castling field accepted (unknown letter, repetition, or `-` mixed with letters)");
            assert!(bits == 8 | ((nk as u8) << 4) | ((nq as u8) << 5) | ((nbk as u8) << 6) | ((nbq as u8) << 7), "C17: castling rights differ from the letters given");
        }
        None => assert!(!well_formed, "C17: well-formed castling field rejected"),
    }
    res.is_some()
}
strcase!(fen_castling_1, fen_castling_case, 1, true);
strcase!(fen_castling_2, fen_castling_case, 2, true);
strcase!(fen_castling_3, fen_castling_case, 3, true);
strcase!(fen_castling_4, fen_castling_case, 4, true);
strcase!(fen_castling_5, fen_castling_case, 5, false);
strcase!(fen_castling_6, fen_castling_case, 6, false);

/// e.p. field (slice verif_fen_ep): Ok exactly for "-" or a file a..h followed by the rank behind a
/// double push of the side NOT to move (6 when White is to move, 3 when Black is); the e.p. file is
/// that file and the castling rights are untouched
fn fen_ep_case<const N: usize>() -> bool {
    let mut b = [0u8; N];
    let mut i = 0;
    while i < N { b[i] = nd::u8_in(1, 127); i += 1; }
    let rights = nd::u8() & 0xF0;
    let white = nd::bool();
    let st0 = super::super::gamestate::verif_gamestate::mk(rights | 8);
    let board = mk::sym_board();
    #[cfg(not(kani))]
    eprintln!("e.p. field: {:?}  side to move white: {}  rights {:#x}", str_of(&b), white, rights);
    let r = Game::verif_fen_ep(str_of(&b), st0, mk::player(white), board);
    let res = match &r { Ok(s) => Some(super::super::gamestate::verif_gamestate::bits(*s)), Err(_) => None };
    core::mem::forget(r);
    let dash = N == 1 && b[0] == b'-';
    let square = N == 2 && (b'a'..=b'h').contains(&b[0]) && b[1] == (if white { b'6' } else { b'3' });
    match res {
        Some(bits) => {
            assert!(dash || square, "C17: malformed en-passant field accepted");
            assert!(bits & 0xF0 == rights, "C17: en-passant field altered the castling rights");
            if dash { assert!(bits & 15 == 8, "C17: `-` does not mean `no en-passant file`"); }
            else {
                // the file is kept as written (FIDE style), or -- if the reader normalises -- dropped ONLY when no pawn
                // of the side to move stands beside the pushed pawn (then no capture exists and the position is the same)
                let file = (b[0] - b'a') as usize;
                let row = if white { 4 } else { 3 };
                let own_pawn = Some(Piece { piece_type: PieceType::Pawn, owner: mk::player(white) });
                let capturable = (file > 0 && board[row * 8 + file - 1] == own_pawn) || (file < 7 && board[row * 8 + file + 1] == own_pawn);
                assert!(bits & 15 == file as u8 || (bits & 15 == 8 && !capturable), "C17: en-passant file differs from the field (an available en-passant capture is lost or shifted)");
            }
        }
        None => assert!(!(dash || square), "C17: well-formed en-passant field rejected"),
    }
    res.is_some()
}
strcase!(fen_ep_1, fen_ep_case, 1, true);
strcase!(fen_ep_2, fen_ep_case, 2, true);
strcase!(fen_ep_3, fen_ep_case, 3, false);
strcase!(fen_ep_4, fen_ep_case, 4, false);

/// tail of Game::new (slice verif_fen_tail): both kings required; the game carries exactly the scanned
/// board, caches, totals and side; one state entry; hash completed with the state key; WF1 king cache
#[cfg_attr(kani, kani::proof)]
#[cfg_attr(kani, kani::unwind(10))]
#[cfg_attr(kani, kani::stub(std::backtrace::Backtrace::capture, backtrace_disabled))]
#[cfg_attr(kani, kani::stub(Game::update_phase, update_phase_noop))]
#[cfg_attr(verif_replay, test)]
pub fn fen_tail_contract() {
    let board = mk::sym_board();
    let (ps, ph) = (mk::sym_i16x64(), mk::sym_u64x64());
    let wk = if nd::bool() { Some(mk::sym_pos()) } else { None };
    let bk = if nd::bool() { Some(mk::sym_pos()) } else { None };
    let side = mk::sym_player();
    let (score, hash) = (nd::i16(), nd::u64());
    let bits = nd::u8();
    let st = super::super::gamestate::verif_gamestate::mk(bits);
    let j = mk::sym_sq();
    let r = Game::verif_fen_tail(board, ps, ph, mk::tables(false), wk, bk, side, score, hash, st);
    match &r {
        Ok(g) => {
            assert!(wk.is_some() && bk.is_some(), "C17: position without a king of each colour accepted");
            assert!(g.board[j] == board[j] && g.past_scores[j] == ps[j] && g.past_hashes[j] == ph[j], "C17: imported game does not carry the scanned board / caches");
            assert!(g.current_player == side && g.score == score, "C17: imported game does not carry side / score");
            assert!(g.hash == hash ^ st.hash(), "C04: imported hash is not completed with the state key");
            assert!(g.state.len() == 1 && gs_bits(g) == bits, "C17: imported game does not start with exactly the parsed state");
            assert!(g.king_positions[0] == wk.unwrap() && g.king_positions[1] == bk.unwrap(), "C17: king cache differs from the scanned king squares");
            assert!(g.move_stack.is_empty(), "C17: imported game has a move record");
        }
        Err(_) => assert!(wk.is_none() || bk.is_none(), "C17: position with both kings rejected by the tail"),
    }
    let ok = r.is_ok();
    core::mem::forget(r);
    vcover!(ok, "accepted reachable");
}
/// update_phase has its own contract (update_phase_contract); here only that it is the LAST step
#[cfg(kani)]
pub fn update_phase_noop(_g: &mut Game) {}

// =================================================================================================
// Game::fen, slice by slice (C11)
// =================================================================================================

// ---- assumed contract of the dependency alloc::string::String (DESIGN.md A4): push / push_str append
// exactly the given bytes to the text and do nothing else.  Under Kani they write into a byte sink
// (String's heap growth with symbolic lengths exhausts CBMC's memory, measured); the native replay and
// the native round-trip test use the real String.
#[cfg(kani)]
pub mod sink {
    pub const CAP: usize = 96;
    pub static mut BUF: [u8; CAP] = [0; CAP];
    pub static mut LEN: usize = 0;
    pub fn push(_s: &mut String, ch: char) {
        unsafe { assert!((ch as u32) < 128 && LEN < CAP, "sink: non-ASCII char or overflow"); BUF[LEN] = ch as u8; LEN += 1; }
    }
    pub fn push_str(_s: &mut String, t: &str) {
        let b = t.as_bytes();
        let mut i = 0;
        while i < b.len() { unsafe { assert!(LEN < CAP, "sink overflow"); BUF[LEN] = b[i]; LEN += 1; } i += 1; }
    }
}

/// per-rank writer (slice verif_fen_rank): for any contents of the rank, appends exactly the
/// standard placement text of that rank (letters, run-length digits, `/` unless it is rank 1)
pub fn fen_rank_contract(row: i8) {
    let g = mk::sym_game_nocache(0);
    let mut s = String::new();
    #[cfg(kani)]
    unsafe { sink::LEN = 0; }
    g.verif_fen_rank(row, &mut s);
    let want = spec::fen_rank_text(&adapt::board_of(&g), row as usize);
    #[cfg(not(kani))]
    eprintln!("board: {}  rank {}: engine wrote {:?}", adapt::show_view(&adapt::view_of(&g)), row + 1, s);
    #[cfg(kani)]
    let got: &[u8] = unsafe { &sink::BUF[..sink::LEN] };
    #[cfg(not(kani))]
    let got: &[u8] = s.as_bytes();
    assert!(want.eq_bytes(got), "C11: exported placement text of a rank differs from the standard text");
    vcover!(got.len() >= 8, "a full rank of eight pieces reachable");
}
macro_rules! fen_rank { ($n:ident, $r:expr) => {
    #[cfg_attr(kani, kani::proof)] #[cfg_attr(kani, kani::unwind(10))]
    #[cfg_attr(kani, kani::stub(std::string::String::push, sink::push))] #[cfg_attr(kani, kani::stub(std::string::String::push_str, sink::push_str))]
    #[cfg_attr(verif_replay, test)]
    pub fn $n() { fen_rank_contract($r) } } }
fen_rank!(fen_rank_1, 0);
fen_rank!(fen_rank_2, 1);
fen_rank!(fen_rank_3, 2);
fen_rank!(fen_rank_4, 3);
fen_rank!(fen_rank_5, 4);
fen_rank!(fen_rank_6, 5);
fen_rank!(fen_rank_7, 6);
fen_rank!(fen_rank_8, 7);

/// field writer (slice verif_fen_fields): side, castling rights, e.p. square (rank 6 when White is to
/// move, 3 when Black is), `0`, full-move number -- for every side, state byte and 0 / 2 recorded moves
fn fen_fields_contract(recorded: usize) {
    let mut g = mk::sym_game_nocache(0);
    let filler = Move::CastlingShort { owner: Player::White };
    let mut k = 0;
    while k < recorded { g.move_stack.push(filler); k += 1; }
    let v = adapt::view_of(&g);
    nd::assume(v.ep <= 8);
    let mut s = String::new();
    #[cfg(kani)]
    unsafe { sink::LEN = 0; }
    g.verif_fen_fields(&mut s);
    let want = spec::fen_tail_text(&v);
    #[cfg(not(kani))]
    eprintln!("position: {}  engine wrote {:?}", adapt::show_view(&v), s);
    #[cfg(kani)]
    let got: &[u8] = unsafe { &sink::BUF[..sink::LEN] };
    #[cfg(not(kani))]
    let got: &[u8] = s.as_bytes();
    assert!(got.len() > want.len && want.eq_bytes(&got[..want.len]), "C11: exported side / castling / en-passant fields differ from the position");
    assert!(spec::fen_counters_ok(&got[want.len..]), "C11: exported FEN does not end in two numeric counter fields (six fields in all)");
    vcover!(v.ep < 8 && !v.white_to_move, "e.p. square with Black to move reachable");
}
#[cfg_attr(kani, kani::proof)] #[cfg_attr(kani, kani::unwind(17))]
#[cfg_attr(kani, kani::stub(std::string::String::push, sink::push))] #[cfg_attr(kani, kani::stub(std::string::String::push_str, sink::push_str))]
#[cfg_attr(verif_replay, test)]
pub fn fen_fields_0_moves() { fen_fields_contract(0) }
#[cfg_attr(kani, kani::proof)] #[cfg_attr(kani, kani::unwind(17))]
#[cfg_attr(kani, kani::stub(std::string::String::push, sink::push))] #[cfg_attr(kani, kani::stub(std::string::String::push_str, sink::push_str))]
#[cfg_attr(verif_replay, test)]
pub fn fen_fields_2_moves() { fen_fields_contract(2) }

/// native (test): whole fen() and the re-import on the engine's own test game and on positions with
/// every castling-rights combination / e.p. files for both sides: re-imported view, hash and move list equal
#[cfg_attr(verif_replay, test)]
#[cfg(not(kani))]
pub fn native_fen_roundtrip() {
    fn check(g: &mut Game) {
        let text = g.fen();
        let v = adapt::view_of(g);
        let mut want = String::new();
        for r in (0..8).rev() { let t = spec::fen_rank_text(&v.board, r); want.push_str(str_of(&t.b[..t.len])); }
        let t = spec::fen_tail_text(&v);
        want.push_str(str_of(&t.b[..t.len]));
        assert!(text.starts_with(&want) && spec::fen_counters_ok(&text.as_bytes()[want.len()..]), "C11 (test): fen() = {:?}, standard text = {:?} + two counters", text, want);
        let mut g2 = Game::new(&text).unwrap();
        assert!(adapt::view_of(&g2) == v, "C11 (test): re-imported position differs: {}", text);
        assert!(g2.hash() == g.hash(), "C11 (test): re-imported hash differs: {}", text);
        let (mut a, mut b) = (ArrayVec::new(), ArrayVec::new());
        g.get_moves(&mut a, true); g2.get_moves(&mut b, true);
        assert!(a.len() == b.len() && a.iter().all(|m| b.contains(m)), "C11 (test): re-imported move list differs: {}", text);
    }
    let mut g = Game::default();
    check(&mut g);
    for mv in crate::constants::TESTING_GAME.split_ascii_whitespace() {
        let m = Move::from_uci_notation(mv, &g).unwrap();
        g.push_history(m);
        check(&mut g);
    }
    for line in [&["e2e4", "a7a5", "e4e5", "d7d5"][..], &["h2h4", "a7a5", "h1h3", "a8a6", "h3h1", "a6a8"][..],
                 &["g2g4", "a7a6", "g4g5", "h7h5"][..], &["a2a4", "h7h5", "a4a5", "h5h4", "g2g4"][..],
                 &["e2e4", "e7e5", "e1e2", "e8e7"][..], &["a2a4", "b7b5", "a4b5", "a7a6", "b5a6", "c8b7", "a6b7", "b8c6", "b7a8n"][..]] {
        let mut g = Game::default();
        for mv in line {
            let m = Move::from_uci_notation(mv, &g).unwrap();
            let mut l = ArrayVec::new(); g.get_moves(&mut l, true);
            assert!(l.contains(&m), "test line contains an illegal move {}", mv);
            g.push_history(m);
            check(&mut g);
        }
    }
}

/// the test after the scanner loop (slice verif_fen_board_end): the board field is accepted only when
/// the scanner stands at the end of rank 1 (row 0, col 8) -- with the step contract this means all 64
/// squares were described, none missing, none extra
#[cfg_attr(kani, kani::proof)]
#[cfg_attr(kani, kani::unwind(10))]
#[cfg_attr(kani, kani::stub(std::backtrace::Backtrace::capture, backtrace_disabled))]
#[cfg_attr(verif_replay, test)]
pub fn fen_board_end_contract() {
    let (row, col) = (nd::i8_in(0, 7), nd::i8_in(0, 8));
    #[cfg(not(kani))]
    eprintln!("scanner state after the board field: row {} col {}", row, col);
    let r = Game::verif_fen_board_end(row, col);
    let ok = r.is_ok();
    core::mem::forget(r);
    assert!(ok == (row == 0 && col == 8), "C17: a board field that does not end exactly at the end of rank 1 is accepted (squares missing) or a complete one rejected");
    vcover!(ok, "accepted reachable");
}

/// one step of Game::get_pgn (slice verif_pgn_step): before every White move (even index) the move
/// number `i/2+1`, a dot and a space; then the move's text and a space.  Indices 0..=17 (numbers 1..9).
#[cfg_attr(kani, kani::proof)] #[cfg_attr(kani, kani::unwind(17))]
#[cfg_attr(kani, kani::stub(std::string::String::push, sink::push))] #[cfg_attr(kani, kani::stub(std::string::String::push_str, sink::push_str))]
#[cfg_attr(verif_replay, test)]
pub fn pgn_step_contract() {
    let i = nd::usize_below(18);
    let text = String::from("Nbd7");
    let mut s = String::new();
    #[cfg(kani)]
    unsafe { sink::LEN = 0; }
    Game::verif_pgn_step(i, &text, &mut s);
    #[cfg(kani)]
    let got: &[u8] = unsafe { &sink::BUF[..sink::LEN] };
    #[cfg(not(kani))]
    let got: &[u8] = s.as_bytes();
    if i % 2 == 0 {
        assert!(got.len() == 8 && got[0] == b'1' + (i / 2) as u8 && got[1] == b'.' && got[2] == b' ' && &got[3..7] == b"Nbd7" && got[7] == b' ',
                "C20: move record numbering: a White move is not preceded by `<number>. ` or not followed by a space");
    } else {
        assert!(got.len() == 5 && &got[0..4] == b"Nbd7" && got[4] == b' ', "C20: move record: a Black move is not written as `<text> `");
    }
    vcover!(i == 16, "ninth move number reachable");
}

/// C20 diagram cell (slice verif_display_cell): for every board and every (i, j) the two diagram
/// loops can produce, the character handed to `write!` is the glyph of the piece standing on rank
/// i+1, file j (white outlined U+2654.., black filled U+265A.., order K Q R B N P), a blank iff the
/// square is empty -- i.e. the cell depicts square (i, j) of *this* game and no other square
#[cfg_attr(kani, kani::proof)]
#[cfg_attr(verif_replay, test)]
pub fn display_cell_contract() {
    let g = mk::sym_game_nocache(0);
    let i = nd::i8_in(0, 7);
    let j = nd::i8_in(0, 7);
    let got = g.verif_display_cell(i, j) as u32;
    let c = adapt::board_of(&g)[(i as usize) * 8 + j as usize];
    #[cfg(not(kani))]
    eprintln!("board: {}  cell rank {} file {}: engine shows U+{:X}", adapt::show_view(&adapt::view_of(&g)), i + 1, j, got);
    let want: u32 = if c == spec::EMPTY { ' ' as u32 } else {
        let off = match spec::kind(c) { 6 => 0, 5 => 1, 4 => 2, 3 => 3, 2 => 4, _ => 5 };
        (if spec::is_white(c) { 0x2654 } else { 0x265A }) + off
    };
    assert!(got == want, "C20: diagram cell does not show the content of its square");
    vcover!(c != spec::EMPTY && !spec::is_white(c) && i == 7 && j == 0, "black piece on a8 reachable");
    vcover!(c == spec::EMPTY, "empty square reachable");
}

/// native (test): `show` output (Display for Game) and the move record on a game with captures,
/// castling, e.p. and all four promotion pieces: Hash / Fen / PGN lines agree with the game, the
/// diagram shows rank 8 first with the glyph of every square, the record names what was played
#[cfg_attr(verif_replay, test)]
#[cfg(not(kani))]
pub fn native_display_and_record() {
    fn check(g: &Game) {
        let text = g.to_string();
        let v = adapt::view_of(g);
        let lines: Vec<&str> = text.lines().collect();
        let (hx, hl) = (format!("{:X}", g.hash()), format!("{:x}", g.hash()));
        assert!(lines.iter().any(|l| l.contains(&hx) || l.contains(&hl)), "C20 (test): no line shows the game's hash");
        assert!(lines.iter().any(|l| l.contains(g.fen().as_str())), "C20 (test): no line shows the game's FEN");
        assert!(lines.iter().any(|l| l.contains(g.get_pgn().trim_end())), "C20 (test): no line shows the move record");
        for r in 0..8usize {
            let mut want = format!("{} ", r + 1);
            for f in 0..8usize {
                let c = v.board[r * 8 + f];
                let glyph = if c == 0 { ' ' } else {
                    let off = match spec::kind(c) { 6 => 0, 5 => 1, 4 => 2, 3 => 3, 2 => 4, _ => 5 };
                    char::from_u32((if spec::is_white(c) { 0x2654 } else { 0x265A }) + off).unwrap()
                };
                want.push('|'); want.push(glyph);
            }
            want.push('|');
            let idx = lines.iter().position(|l| *l == want);
            assert!(idx.is_some(), "C20 (test): diagram row for rank {} is wrong; want {:?}", r + 1, want);
            if r > 0 {
                let prev = format!("{} ", r);
                let pidx = lines.iter().position(|l| l.starts_with(&prev) && l.contains('|')).unwrap();
                assert!(idx.unwrap() < pidx, "C20 (test): diagram ranks are not printed from 8 down to 1");
            }
        }
        assert!(lines.iter().any(|l| l.trim() == "a b c d e f g h"), "C20 (test): file legend missing");
    }
    let mut g = Game::default();
    let mut want_record = String::new();
    let line = ["e2e4", "d7d5", "e4d5", "c7c5", "d5c6", "b8a6", "c6b7", "c8d7", "b7a8n", "d8c7", "g1f3", "e7e6", "f1c4", "f8d6", "e1g1", "g8f6", "d2d4", "e8g8"];
    for (i, mv) in line.iter().enumerate() {
        let m = Move::from_uci_notation(mv, &g).unwrap();
        let mut l = ArrayVec::new(); g.get_moves(&mut l, true);
        assert!(l.contains(&m), "test line contains an illegal move {}", mv);
        let v = adapt::view_of(&g);
        let t = spec::record_text(&v.board, adapt::smove_of(&m), v.white_to_move);
        if i % 2 == 0 { want_record.push_str(&format!("{}. ", i / 2 + 1)); }
        want_record.push_str(str_of(&t.b[..t.len])); want_record.push(' ');
        g.push_history(m);
        assert!(g.get_pgn() == want_record, "C20 (test): move record {:?}, specified {:?}", g.get_pgn(), want_record);
        check(&g);
    }
}

/// the statement between the side field and the castling field of Game::new (slice verif_fen_side_key):
/// the side key enters the hash exactly when Black is to move
#[cfg_attr(kani, kani::proof)]
#[cfg_attr(verif_replay, test)]
pub fn fen_side_key_contract() {
    let white = nd::bool();
    let h = nd::u64();
    let got = Game::verif_fen_side_key(mk::player(white), h);
    assert!(got == h ^ (if white { 0 } else { spec::SIDE_KEY }), "C04: the importer does not hash the side to move with the published side key");
    vcover!(!white, "black to move reachable");
}

/// the board loop of Game::fen as a whole (slice verif_fen_board_loop, header `for row in (0..8).rev()`
/// included) on boards holding ONE piece of any kind on any square: the placement field is the eight
/// rank texts from rank 8 down to rank 1 (so a mirrored or shifted rank order is caught).  BOUNDED in
/// the board (one piece); the per-rank contract fen_rank_* covers every rank content.
#[cfg_attr(kani, kani::proof)] #[cfg_attr(kani, kani::unwind(10))]
#[cfg_attr(kani, kani::stub(std::string::String::push, sink::push))] #[cfg_attr(kani, kani::stub(std::string::String::push_str, sink::push_str))]
#[cfg_attr(verif_replay, test)]
pub fn fen_board_loop_one_piece() {
    let mut g = mk::game_side_only(true);
    let s = mk::sym_sq();
    g.board[s] = Some(mk::sym_piece());
    let b = adapt::board_of(&g);
    let mut out = String::new();
    #[cfg(kani)]
    unsafe { sink::LEN = 0; }
    g.verif_fen_board_loop(&mut out);
    #[cfg(kani)]
    let got: &[u8] = unsafe { &sink::BUF[..sink::LEN] };
    #[cfg(not(kani))]
    let got: &[u8] = out.as_bytes();
    let mut pos = 0usize;
    let mut ok = true;
    let mut r = 8;
    while r > 0 {
        r -= 1;
        let t = spec::fen_rank_text(&b, r);
        let mut i = 0;
        while i < 9 { if i < t.len { if pos >= got.len() || got[pos] != t.b[i] { ok = false; } pos += 1; } i += 1; }
    }
    assert!(ok && pos == got.len(), "C11: the placement field is not the rank texts from rank 8 down to rank 1");
    vcover!(s == 0, "piece on a1 reachable");
}
