//! nd.rs -- the ONLY place harnesses obtain nondeterministic values or state assumptions.
//!
//! Under Kani every `nd::*` draw is exactly one `kani::any::<uN>()`; Kani's concrete playback
//! prints one little-endian byte vector per draw, in execution order.  Under `--cfg verif_replay`
//! (plain rustc, debug assertions + overflow checks on) the same draws pop those vectors from the
//! file named by $VERIF_REPLAY_VALUES (one line per draw: comma separated decimal bytes), so a
//! counterexample found by the verifier is re-executed against the natively compiled engine code.
//!
//! `assume(false)` aborts a replay as VACUOUS (the values did not satisfy the precondition, i.e.
//! the replay diverged from the verifier's trace).

#[cfg(kani)]
mod imp {
    #[inline(always)]
    pub fn raw8() -> u8 { kani::any() }
    #[inline(always)]
    pub fn raw16() -> u16 { kani::any() }
    #[inline(always)]
    pub fn raw32() -> u32 { kani::any() }
    #[inline(always)]
    pub fn raw64() -> u64 { kani::any() }
    #[inline(always)]
    pub fn assume(c: bool) { kani::assume(c) }
}

#[cfg(not(kani))]
mod imp {
    use std::cell::RefCell;
    thread_local! {
        static QUEUE: RefCell<Option<std::collections::VecDeque<Vec<u8>>>> = RefCell::new(None);
    }
    fn pop(n: usize) -> u64 {
        QUEUE.with(|q| {
            let mut q = q.borrow_mut();
            if q.is_none() {
                let mut d = std::collections::VecDeque::new();
                if let Ok(p) = std::env::var("VERIF_REPLAY_VALUES") {
                    if let Ok(text) = std::fs::read_to_string(&p) {
                        for line in text.lines() {
                            let line = line.trim();
                            if line.is_empty() || line.starts_with('#') { continue; }
                            d.push_back(line.split(',').filter(|t| !t.trim().is_empty())
                                .map(|t| t.trim().parse::<u8>().expect("byte")).collect());
                        }
                    }
                }
                *q = Some(d);
            }
            match q.as_mut().unwrap().pop_front() {
                Some(v) => {
                    if v.len() != n { eprintln!("VERIF-REPLAY-WIDTH-MISMATCH want {} got {}", n, v.len()); }
                    let mut x = 0u64;
                    for (i, b) in v.iter().enumerate().take(8) { x |= (*b as u64) << (8 * i); }
                    x
                }
                None => { eprintln!("VERIF-REPLAY-EXHAUSTED"); 0 }
            }
        })
    }
    pub fn raw8() -> u8 { pop(1) as u8 }
    pub fn raw16() -> u16 { pop(2) as u16 }
    pub fn raw32() -> u32 { pop(4) as u32 }
    pub fn raw64() -> u64 { pop(8) }
    pub fn assume(c: bool) { if !c { panic!("VERIF-REPLAY-VACUOUS: an assumption does not hold for the replayed values"); } }
}

pub use imp::assume;

pub fn u8() -> u8 { imp::raw8() }
pub fn i8() -> i8 { imp::raw8() as i8 }
pub fn u16() -> u16 { imp::raw16() }
pub fn i16() -> i16 { imp::raw16() as i16 }
pub fn u32() -> u32 { imp::raw32() }
pub fn u64() -> u64 { imp::raw64() }
pub fn bool() -> bool { imp::raw8() & 1 == 1 }
/// a value in lo..=hi (assumed, not reduced, so the printed byte is the value itself)
pub fn u8_in(lo: u8, hi: u8) -> u8 { let v = u8(); assume(lo <= v && v <= hi); v }
pub fn i8_in(lo: i8, hi: i8) -> i8 { let v = i8(); assume(lo <= v && v <= hi); v }
pub fn usize_below(n: usize) -> usize { let v = u8(); assume((v as usize) < n); v as usize }
pub fn opt_u64() -> Option<u64> { if bool() { Some(u64()) } else { None } }
pub fn char() -> char {
    let v = u32();
    assume(v <= 0x10FFFF && !(0xD800 <= v && v <= 0xDFFF));
    char::from_u32(v).unwrap()
}

/// reachability witness: under Kani a `cover` property (must be SATISFIED, else the harness is
/// vacuous); a no-op in replays.
#[macro_export]
macro_rules! vcover {
    ($c:expr, $m:expr) => {
        #[cfg(kani)]
        kani::cover!($c, $m);
    };
}
