//! adapt.rs -- engine values <-> spec encodings.  Pure data conversion; reads engine *fields* and
//! the trivial accessors Position::{row,col}; calls no engine logic.
use super::super::*;
use crate::spec::{self, SMove, View};

pub fn kind_code(t: PieceType) -> u8 {
    match t {
        PieceType::Pawn => spec::P,
        PieceType::Knight => spec::N,
        PieceType::Bishop => spec::B,
        PieceType::Rook => spec::R,
        PieceType::Queen => spec::Q,
        PieceType::King => spec::K,
    }
}
pub fn type_of(k: u8) -> PieceType {
    match k {
        1 => PieceType::Pawn,
        2 => PieceType::Knight,
        3 => PieceType::Bishop,
        4 => PieceType::Rook,
        5 => PieceType::Queen,
        _ => PieceType::King,
    }
}
pub fn is_white(p: Player) -> bool { matches!(p, Player::White) }
pub fn player(white: bool) -> Player { if white { Player::White } else { Player::Black } }
pub fn code_of(p: Option<Piece>) -> u8 {
    match p {
        None => spec::EMPTY,
        Some(pc) => spec::code(kind_code(pc.piece_type), is_white(pc.owner)),
    }
}
/// inverse of code_of on valid codes
pub fn place_of(c: u8) -> Option<Piece> {
    if c == spec::EMPTY { None } else { Some(Piece { piece_type: type_of(spec::kind(c)), owner: player(spec::is_white(c)) }) }
}
pub fn sq(p: Position) -> usize { (p.row() as usize) * 8 + p.col() as usize }

pub fn board_of(g: &Game) -> spec::Board {
    let mut b = [0u8; 64];
    let mut r = 0;
    while r < 8 {
        let mut f = 0;
        while f < 8 { b[r * 8 + f] = code_of(g.board[r * 8 + f]); f += 1; }
        r += 1;
    }
    b
}

/// the abstract view of a game (DESIGN.md 3.2): board, side, rights and e.p. file of the top state
pub fn view_of(g: &Game) -> View {
    let st = *g.state.last().unwrap();
    View {
        board: board_of(g),
        white_to_move: is_white(g.current_player),
        castle: [st.white_king_castling(), st.white_queen_castling(), st.black_king_castling(), st.black_queen_castling()],
        ep: (st.en_passant() as u8) & 15,
    }
}

/// spec move denoted by an engine move value (its from/to/kind content)
pub fn smove_of(m: &Move) -> SMove {
    match *m {
        Move::Normal { start, end, .. } => SMove::Normal { from: sq(start), to: sq(end) },
        Move::Promotion { start, end, new_piece, .. } => SMove::Promo { from: sq(start), to: sq(end), kind: kind_code(new_piece) },
        Move::EnPassant { owner, start_col, end_col } => {
            let (r0, r1) = if is_white(owner) { (4usize, 5usize) } else { (3, 2) };
            SMove::EnPassant { from: r0 * 8 + start_col as usize, to: r1 * 8 + end_col as usize }
        }
        Move::CastlingShort { .. } => SMove::CastleShort,
        Move::CastlingLong { .. } => SMove::CastleLong,
    }
}

/// the redundant fields of an engine move value agree with the board and the side to move
pub fn fields_consistent(b: &spec::Board, white_to_move: bool, m: &Move) -> bool {
    match *m {
        Move::Normal { piece, start, end, captured_piece } =>
            code_of(Some(piece)) == b[sq(start)] && code_of(captured_piece) == b[sq(end)],
        Move::Promotion { owner, start, end, captured_piece, .. } =>
            is_white(owner) == white_to_move && code_of(captured_piece) == b[sq(end)],
        Move::EnPassant { owner, start_col, end_col } =>
            is_white(owner) == white_to_move && 0 <= start_col && start_col < 8 && 0 <= end_col && end_col < 8,
        Move::CastlingShort { owner } | Move::CastlingLong { owner } => is_white(owner) == white_to_move,
    }
}

/// the piece-square table the engine has in force for a kind (scores.rs is data; which table
/// applies to the king is the game-phase flag)
pub fn table_for(kind: u8, endgame_king: bool) -> &'static [i16; 64] {
    match kind {
        1 => &scores::PAWN_SCORES,
        2 => &scores::KNIGHT_SCORES,
        3 => &scores::BISHOP_SCORES,
        4 => &scores::ROOK_SCORES,
        5 => &scores::QUEEN_SCORES,
        _ => if endgame_king { &scores::KING_SCORES_END } else { &scores::KING_SCORES_MIDDLE },
    }
}
/// specified contribution of content `c` on `sq`
pub fn want_score(sq: usize, c: u8, endgame_king: bool) -> i16 {
    if c == spec::EMPTY { 0 } else { spec::sq_score(table_for(spec::kind(c), endgame_king), sq, c) }
}
/// is the END king table the one installed in the game's cells?
pub fn endgame_table_in_force(g: &Game) -> bool {
    core::ptr::eq(g.piece_scores[PieceType::King as usize].get(), &scores::KING_SCORES_END)
}

// ---- human-readable renderings for replay artefacts (native only) ---------------------------------
#[cfg(not(kani))]
pub fn show_view(v: &View) -> String {
    let mut s = String::new();
    for r in (0..8).rev() {
        let mut e = 0;
        for f in 0..8 {
            let c = v.board[r * 8 + f];
            if c == 0 { e += 1; } else { if e > 0 { s.push_str(&e.to_string()); e = 0; } s.push(spec::fen_letter(c) as char); }
        }
        if e > 0 { s.push_str(&e.to_string()); }
        if r > 0 { s.push('/'); }
    }
    s.push_str(if v.white_to_move { " w " } else { " b " });
    let mut any = false;
    for (i, ch) in ['K', 'Q', 'k', 'q'].iter().enumerate() { if v.castle[i] { s.push(*ch); any = true; } }
    if !any { s.push('-'); }
    s.push(' ');
    if v.ep < 8 { s.push((b'a' + v.ep) as char); s.push(if v.white_to_move { '6' } else { '3' }); } else if v.ep == 8 { s.push('-'); } else { s.push_str(&format!("ep-nibble={}", v.ep)); }
    s
}
#[cfg(not(kani))]
pub fn show_move(m: &Move) -> String {
    let sqn = |s: usize| format!("{}{}", (b'a' + (s % 8) as u8) as char, s / 8 + 1);
    match *m {
        Move::Normal { piece, start, end, captured_piece } => format!("Normal {}{}{} captured={}", spec::fen_letter(code_of(Some(piece))) as char, sqn(sq(start)), sqn(sq(end)), if captured_piece.is_some() { (spec::fen_letter(code_of(captured_piece)) as char).to_string() } else { "-".into() }),
        Move::Promotion { owner, start, end, new_piece, captured_piece } => format!("Promotion {:?} {}{}={} captured={}", owner, sqn(sq(start)), sqn(sq(end)), spec::fen_letter(kind_code(new_piece)) as char, if captured_piece.is_some() { (spec::fen_letter(code_of(captured_piece)) as char).to_string() } else { "-".into() }),
        Move::EnPassant { owner, start_col, end_col } => format!("EnPassant {:?} file {} -> file {}", owner, start_col, end_col),
        Move::CastlingShort { owner } => format!("CastlingShort {:?}", owner),
        Move::CastlingLong { owner } => format!("CastlingLong {:?}", owner),
    }
}
