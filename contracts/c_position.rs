//! c_position.rs -- child module of `chess::position`: the type invariant every unchecked index
//! rests on (C15).  Full i8 domain, loop-free => complete.
use super::*;
use crate::nd;

fn on_board(r: i8, c: i8) -> bool { 0 <= r && r < 8 && 0 <= c && c < 8 }
pub fn valid(p: Position) -> bool { on_board(p.0, p.1) }

/// Position::new returns Some exactly for on-board coordinates, and the value carries them
#[cfg_attr(kani, kani::proof)]
#[cfg_attr(verif_replay, test)]
pub fn position_new_contract() {
    let (r, c) = (nd::i8(), nd::i8());
    match Position::new(r, c) {
        Some(p) => assert!(on_board(r, c) && p.0 == r && p.1 == c && valid(p), "C15: Position::new accepted an off-board square"),
        None => assert!(!on_board(r, c), "Position::new rejected an on-board square"),
    }
    vcover!(Position::new(r, c).is_some(), "accepted reachable");
}

/// Position::add keeps the invariant: from a valid position and ANY i8 delta that does not overflow
/// (call sites: |delta| <= 8) the result is Some exactly when the sum is on the board
#[cfg_attr(kani, kani::proof)]
#[cfg_attr(verif_replay, test)]
pub fn position_add_contract() {
    let (r, c) = (nd::i8_in(0, 7), nd::i8_in(0, 7));
    let (dr, dc) = (nd::i8_in(-120, 119), nd::i8_in(-120, 119));
    let p = Position::new(r, c).unwrap();
    match p.add((dr, dc)) {
        Some(q) => assert!(valid(q) && q.0 == r + dr && q.1 == c + dc, "C15: Position::add produced an off-board or wrong square"),
        None => assert!(!on_board(r + dr, c + dc), "Position::add rejected an on-board square"),
    }
    vcover!(p.add((dr, dc)).is_some(), "accepted reachable");
}

/// as_usize of a valid position is row*8+col < 64 (the bound of every get_unchecked in the engine)
#[cfg_attr(kani, kani::proof)]
#[cfg_attr(verif_replay, test)]
pub fn position_as_usize_contract() {
    let (r, c) = (nd::i8_in(0, 7), nd::i8_in(0, 7));
    let p = Position::new(r, c).unwrap();
    assert!(p.as_usize() < 64 && p.as_usize() == (r as usize) * 8 + c as usize, "C15: as_usize of a valid position is not row*8+col < 64");
    assert!(p.row() == r && p.col() == c, "row()/col() do not return the coordinates");
}

/// the four rook-home constants are the squares a1, h1, a8, h8
#[cfg_attr(kani, kani::proof)]
#[cfg_attr(verif_replay, test)]
pub fn position_consts() {
    assert!(Position::WHITE_QUEEN_ROOK.as_usize() == 0 && Position::WHITE_KING_ROOK.as_usize() == 7
        && Position::BLACK_QUEEN_ROOK.as_usize() == 56 && Position::BLACK_KING_ROOK.as_usize() == 63, "rook home constants are wrong");
    assert!(valid(Position::WHITE_QUEEN_ROOK) && valid(Position::WHITE_KING_ROOK) && valid(Position::BLACK_QUEEN_ROOK) && valid(Position::BLACK_KING_ROOK));
}
