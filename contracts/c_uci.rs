//! c_uci.rs -- child module of `uci`: contracts for the time-budget arithmetic (C13).
use super::*;
use crate::chess::verif_chess::mk;
use crate::nd;

const CLOCK_MAX: u64 = u64::MAX;

// ---- assumed contract of the dependency std::time::Duration (DESIGN.md A4) -----------------------
// Under Kani the two Duration operations the slice uses are replaced by an order embedding of u64
// milliseconds (the `secs` field carries the millisecond count): 64-bit division circuits make the
// real code intractable for SAT (measured: no result in 5 min for `from_millis(x).saturating_sub(5ms)
// <= from_millis(x)`).  The native replay runs the real std code.
#[cfg(kani)]
pub fn stub_from_millis(ms: u64) -> Duration { Duration::new(ms, 0) }
#[cfg(kani)]
pub fn stub_saturating_sub(a: Duration, b: Duration) -> Duration { Duration::new(a.as_secs().saturating_sub(b.as_secs()), 0) }

/// whole milliseconds of a budget (under the embedding when stubbed)
fn millis(d: Duration) -> u128 {
    #[cfg(kani)]
    { d.as_secs() as u128 }
    #[cfg(not(kani))]
    { d.as_millis() }
}

/// C13 (clock mode).  Contract of the budget slice `verif_budget` (uci.rs, verbatim region of
/// `command_go`): for all clocks and increments, for either side,
///   * no arithmetic overflow / underflow panic (Kani's own checks on the verbatim text),
///   * the budget handed to the timer thread is <= the mover's remaining clock.
/// Clocks are bounded by 2^53 ms here (every such u64 is exact in f64); the float term for
/// larger clocks is the SMT lemma (tools/run_smt.py).
#[cfg_attr(kani, kani::proof)]
#[cfg_attr(kani, kani::stub(std::time::Duration::from_millis, stub_from_millis))]
#[cfg_attr(kani, kani::stub(std::time::Duration::saturating_sub, stub_saturating_sub))]
#[cfg_attr(verif_replay, test)]
pub fn c13_budget_clock_mode() {
    let white = nd::bool();
    let g = mk::game_side_only(white);
    let (wt, bt, wi, bi) = (nd::u64(), nd::u64(), nd::u64(), nd::u64());
    nd::assume(wt <= CLOCK_MAX && bt <= CLOCK_MAX);
    let r = verif_budget(&g, Some(wt), Some(bt), Some(wi), Some(bi), None);
    let own = if white { wt } else { bt };
    match r {
        Some(d) => assert!(millis(d) <= own as u128, "C13: budget exceeds the mover's remaining clock"),
        None => assert!(false, "C13: no budget computed in clock mode"),
    }
    vcover!(r.is_some_and(|d| d > Duration::ZERO), "budget can be positive");
    vcover!(own < 7500 && wi == 0 && bi == 0, "low clock without increment reachable");
}

/// C13 (movetime mode): the budget is <= movetime, whatever the clocks say.
#[cfg_attr(kani, kani::proof)]
#[cfg_attr(kani, kani::stub(std::time::Duration::from_millis, stub_from_millis))]
#[cfg_attr(kani, kani::stub(std::time::Duration::saturating_sub, stub_saturating_sub))]
#[cfg_attr(verif_replay, test)]
pub fn c13_budget_movetime_mode() {
    let white = nd::bool();
    let g = mk::game_side_only(white);
    let mt = nd::u64();
    let r = verif_budget(&g, None, None, None, None, Some(mt));
    match r {
        Some(d) => assert!(millis(d) <= mt as u128, "C13: budget exceeds movetime"),
        None => assert!(false, "C13: no budget computed in movetime mode"),
    }
    vcover!(r.is_some_and(|d| millis(d) > 1000), "budget can exceed 1 s");
}

/// C13: movetime takes precedence over clocks, and is still bounded by movetime.
#[cfg_attr(kani, kani::proof)]
#[cfg_attr(kani, kani::stub(std::time::Duration::from_millis, stub_from_millis))]
#[cfg_attr(kani, kani::stub(std::time::Duration::saturating_sub, stub_saturating_sub))]
#[cfg_attr(verif_replay, test)]
pub fn c13_budget_movetime_with_clocks() {
    let white = nd::bool();
    let g = mk::game_side_only(white);
    let (wt, bt, wi, bi, mt) = (nd::u64(), nd::u64(), nd::u64(), nd::u64(), nd::u64());
    nd::assume(wt <= CLOCK_MAX && bt <= CLOCK_MAX);
    let r = verif_budget(&g, Some(wt), Some(bt), Some(wi), Some(bi), Some(mt));
    match r {
        Some(d) => assert!(millis(d) <= mt as u128, "C13: budget exceeds movetime (clocks also given)"),
        None => assert!(false, "C13: no budget computed"),
    }
    vcover!(true, "reachable");
}
