//! c_uci.rs -- child module of `uci`: contracts for the time-budget arithmetic (C13).
use super::*;
use crate::chess::verif_chess::mk;
use crate::nd;

const TWO53: u64 = 1 << 53;

/// Duration -> whole milliseconds without 128-bit arithmetic (SAT-friendly); exact because the
/// harness asserts the seconds part fits.
fn millis(d: Duration) -> u64 {
    assert!(d.as_secs() <= u64::MAX / 1000, "C13: budget is not a finite number of milliseconds");
    d.as_secs() * 1000 + d.subsec_millis() as u64
}

/// C13 (clock mode).  Contract of the budget slice `verif_budget` (uci.rs, verbatim region of
/// `command_go`): for all clocks and increments, for either side,
///   * no arithmetic overflow / underflow panic (Kani's own checks on the verbatim text),
///   * the budget handed to the timer thread is <= the mover's remaining clock.
/// Clocks are bounded by 2^53 ms here (every such u64 is exact in f64); the float term for
/// larger clocks is the SMT lemma (tools/run_smt.py).
#[cfg_attr(kani, kani::proof)]
#[cfg_attr(verif_replay, test)]
pub fn c13_budget_clock_mode() {
    let white = nd::bool();
    let g = mk::game_side_only(white);
    let (wt, bt, wi, bi) = (nd::u64(), nd::u64(), nd::u64(), nd::u64());
    nd::assume(wt <= TWO53 && bt <= TWO53);
    let r = verif_budget(&g, Some(wt), Some(bt), Some(wi), Some(bi), None);
    let own = if white { wt } else { bt };
    match r {
        Some(d) => assert!(millis(d) <= own, "C13: budget exceeds the mover's remaining clock"),
        None => assert!(false, "C13: no budget computed in clock mode"),
    }
    vcover!(r.is_some_and(|d| d > Duration::ZERO), "budget can be positive");
    vcover!(own < 7500 && wi == 0 && bi == 0, "low clock without increment reachable");
}

/// C13 (movetime mode): the budget is <= movetime, whatever the clocks say.
#[cfg_attr(kani, kani::proof)]
#[cfg_attr(verif_replay, test)]
pub fn c13_budget_movetime_mode() {
    let white = nd::bool();
    let g = mk::game_side_only(white);
    let mt = nd::u64();
    let r = verif_budget(&g, None, None, None, None, Some(mt));
    match r {
        Some(d) => assert!(millis(d) <= mt, "C13: budget exceeds movetime"),
        None => assert!(false, "C13: no budget computed in movetime mode"),
    }
    vcover!(r.is_some_and(|d| d.as_secs() > 1), "budget can exceed 1 s");
}

/// C13: movetime takes precedence over clocks, and is still bounded by movetime.
#[cfg_attr(kani, kani::proof)]
#[cfg_attr(verif_replay, test)]
pub fn c13_budget_movetime_with_clocks() {
    let white = nd::bool();
    let g = mk::game_side_only(white);
    let (wt, bt, wi, bi, mt) = (nd::u64(), nd::u64(), nd::u64(), nd::u64(), nd::u64());
    nd::assume(wt <= TWO53 && bt <= TWO53);
    let r = verif_budget(&g, Some(wt), Some(bt), Some(wi), Some(bi), Some(mt));
    match r {
        Some(d) => assert!(millis(d) <= mt, "C13: budget exceeds movetime (clocks also given)"),
        None => assert!(false, "C13: no budget computed"),
    }
    vcover!(true, "reachable");
}

#[cfg_attr(kani, kani::proof)]
pub fn exp_d_movetime() {
    let white = nd::bool();
    let g = mk::game_side_only(white);
    let mt = nd::u64();
    let r = verif_budget(&g, None, None, None, None, Some(mt));
    assert!(r.unwrap() <= Duration::from_millis(mt));
}
#[cfg_attr(kani, kani::proof)]
pub fn exp_mono() {
    let (x, y) = (nd::u64(), nd::u64());
    nd::assume(x <= y);
    assert!(Duration::from_millis(x) <= Duration::from_millis(y));
}
#[cfg_attr(kani, kani::proof)]
pub fn exp_mono32() {
    let (x, y) = (nd::u32() as u64, nd::u32() as u64);
    nd::assume(x <= y);
    assert!(Duration::from_millis(x) <= Duration::from_millis(y));
}
