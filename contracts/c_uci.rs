//! c_uci.rs -- child module of `uci`: contracts for the time-budget arithmetic (C13).
use super::*;
use crate::chess::verif_chess::mk;
use crate::nd;
extern crate alloc;

const CLOCK_MAX: u64 = u64::MAX;

// ---- assumed contract of the dependency std::time::Duration (DESIGN.md A4) -----------------------
// Under Kani the two Duration operations the slice uses are replaced by an order embedding of u64
// milliseconds (the `secs` field carries the millisecond count): 64-bit division circuits make the
// real code intractable for SAT (measured: no result in 5 min for `from_millis(x).saturating_sub(5ms)
// <= from_millis(x)`).  The native replay runs the real std code.
#[cfg(kani)]
pub fn stub_from_millis(ms: u64) -> Duration { Duration::new(ms, 0) }
#[cfg(kani)]
pub fn stub_saturating_sub(a: Duration, b: Duration) -> Duration { Duration::new(a.as_secs().saturating_sub(b.as_secs()), 0) }

/// whole milliseconds of a budget (under the embedding when stubbed)
fn millis(d: Duration) -> u128 {
    #[cfg(kani)]
    { d.as_secs() as u128 }
    #[cfg(not(kani))]
    { d.as_millis() }
}

/// C13 (clock mode).  Contract of the budget slice `verif_budget` (uci.rs, verbatim region of
/// `command_go`): for all clocks and increments, for either side,
///   * no arithmetic overflow / underflow panic (Kani's own checks on the verbatim text),
///   * the budget handed to the timer thread is <= the mover's remaining clock.
/// Clocks are bounded by 2^53 ms here (every such u64 is exact in f64); the float term for
/// larger clocks is the SMT lemma (tools/run_smt.py).
#[cfg_attr(kani, kani::proof)]
#[cfg_attr(kani, kani::stub(std::time::Duration::from_millis, stub_from_millis))]
#[cfg_attr(kani, kani::stub(std::time::Duration::saturating_sub, stub_saturating_sub))]
#[cfg_attr(verif_replay, test)]
pub fn c13_budget_clock_mode() {
    let white = nd::bool();
    let g = mk::game_side_only(white);
    let (wt, bt, wi, bi) = (nd::u64(), nd::u64(), nd::u64(), nd::u64());
    nd::assume(wt <= CLOCK_MAX && bt <= CLOCK_MAX);
    let r = verif_budget(&g, Some(wt), Some(bt), Some(wi), Some(bi), None);
    let own = if white { wt } else { bt };
    match r {
        Some(d) => assert!(millis(d) <= own as u128, "C13: budget exceeds the mover's remaining clock"),
        None => assert!(false, "C13: no budget computed in clock mode"),
    }
    vcover!(r.is_some_and(|d| d > Duration::ZERO), "budget can be positive");
    vcover!(own < 7500 && wi == 0 && bi == 0, "low clock without increment reachable");
}

/// C13 (movetime mode): the budget is <= movetime, whatever the clocks say.
#[cfg_attr(kani, kani::proof)]
#[cfg_attr(kani, kani::stub(std::time::Duration::from_millis, stub_from_millis))]
#[cfg_attr(kani, kani::stub(std::time::Duration::saturating_sub, stub_saturating_sub))]
#[cfg_attr(verif_replay, test)]
pub fn c13_budget_movetime_mode() {
    let white = nd::bool();
    let g = mk::game_side_only(white);
    let mt = nd::u64();
    let r = verif_budget(&g, None, None, None, None, Some(mt));
    match r {
        Some(d) => assert!(millis(d) <= mt as u128, "C13: budget exceeds movetime"),
        None => assert!(false, "C13: no budget computed in movetime mode"),
    }
    vcover!(r.is_some_and(|d| millis(d) > 1000), "budget can exceed 1 s");
}

/// C13: movetime takes precedence over clocks, and is still bounded by movetime.
#[cfg_attr(kani, kani::proof)]
#[cfg_attr(kani, kani::stub(std::time::Duration::from_millis, stub_from_millis))]
#[cfg_attr(kani, kani::stub(std::time::Duration::saturating_sub, stub_saturating_sub))]
#[cfg_attr(verif_replay, test)]
pub fn c13_budget_movetime_with_clocks() {
    let white = nd::bool();
    let g = mk::game_side_only(white);
    let (wt, bt, wi, bi, mt) = (nd::u64(), nd::u64(), nd::u64(), nd::u64(), nd::u64());
    nd::assume(wt <= CLOCK_MAX && bt <= CLOCK_MAX);
    let r = verif_budget(&g, Some(wt), Some(bt), Some(wi), Some(bi), Some(mt));
    match r {
        Some(d) => assert!(millis(d) <= mt as u128, "C13: budget exceeds movetime (clocks also given)"),
        None => assert!(false, "C13: no budget computed"),
    }
    vcover!(true, "reachable");
}

// =================================================================================================
// command_position's per-move step (slice verif_position_step)  -- C12 (acceptance) and C15 (length guard)
// =================================================================================================
#[cfg(kani)]
pub mod step {
    use super::*;
    pub static mut PARSED: Option<Move> = None;
    pub static mut LIST: [Option<Move>; 3] = [None, None, None];
    pub static mut PUSHED: u8 = 0;
    pub static mut PUSHED_MOVE: Option<Move> = None;
    pub static mut LEN_AT_PUSH: usize = 0;
    pub static mut ASKED_CHECKED: bool = true;
    /// abstract parser: any answer
    pub fn from_uci_notation(_s: &str, _g: &Game) -> Option<Move> { unsafe { PARSED } }
    /// abstract generator: the checked list is any list of up to three moves
    pub fn get_moves(_g: &mut Game, moves: &mut ArrayVec<Move, 256>, verify_king: bool) {
        unsafe {
            if !verify_king { ASKED_CHECKED = false; }
            moves.clear();
            if let Some(m) = LIST[0] { moves.push(m); }
            if let Some(m) = LIST[1] { moves.push(m); }
            if let Some(m) = LIST[2] { moves.push(m); }
        }
    }
    /// abstract push_history: records the call; the game grows by one entry
    pub fn push_history(g: &mut Game, m: Move) {
        unsafe {
            PUSHED += 1;
            PUSHED_MOVE = Some(m);
            LEN_AT_PUSH = g.len();
        }
        crate::chess::verif_chess::mk::grow_by_one(g);
    }
}

/// A5: what a search can add on top of an accepted game: at most 33 plies of main search (the killer
/// table has 32 slots) plus one capture per remaining enemy piece in the quiescence search (<= 30).
pub const SEARCH_MARGIN: usize = 64;
/// the longest game the `position` command may leave in place: 512 - 1 - SEARCH_MARGIN
pub const MAX_ACCEPTED_LEN: usize = 511 - SEARCH_MARGIN;

/// One step of `position ... moves`:  for any parser answer, any checked list, any game of at most
/// MAX_ACCEPTED_LEN entries:
///   * the move is played (push_history, exactly once, exactly the parsed move) iff the parser answered
///     Some(m) and m is a member of the CHECKED list; otherwise an error is returned and nothing is played;
///   * a parse failure drops the game; after a played move either the game is dropped with an error or it
///     still has at most MAX_ACCEPTED_LEN entries (inductive: with the search margin, the 512-entry state
///     stack cannot overflow for games this command accepted).  The engine's guard (400) is not hard-wired here.
#[cfg(kani)]
#[kani::proof]
#[kani::unwind(5)]
#[kani::stub(Move::from_uci_notation, step::from_uci_notation)]
#[kani::stub(Game::get_moves, step::get_moves)]
#[kani::stub(Game::push_history, step::push_history)]
#[kani::stub(std::backtrace::Backtrace::capture, backtrace_disabled)]
#[kani::stub(alloc::fmt::format, format_empty)]
pub fn position_step_contract() {
    use crate::chess::verif_chess::{mk, sym_move};
    let len0 = nd::u16() as usize;
    nd::assume(1 <= len0 && len0 <= MAX_ACCEPTED_LEN);
    let mut data = Data { current_game: Some(mk::game_with_len(len0)), cache: HashMap::with_hasher(BuildNoHashHasher::default()) };
    let parsed = if nd::bool() { Some(sym_move(nd::u8_in(0, 4))) } else { None };
    let l0 = if nd::bool() { Some(sym_move(nd::u8_in(0, 4))) } else { None };
    let l1 = if nd::bool() { Some(sym_move(nd::u8_in(0, 4))) } else { None };
    unsafe {
        step::PARSED = parsed; step::LIST = [l0, l1, None]; step::PUSHED = 0; step::PUSHED_MOVE = None; step::ASKED_CHECKED = true;
    }
    let r = verif_position_step(&mut data, "e2e4");
    let ok = r.is_ok();
    core::mem::forget(r);
    let member = parsed.is_some() && (parsed == l0 || parsed == l1);
    let (pushed, pushed_move, len_at_push, asked_checked) = unsafe { (step::PUSHED, step::PUSHED_MOVE, step::LEN_AT_PUSH, step::ASKED_CHECKED) };
    assert!(asked_checked, "C12: acceptance is tested against the unchecked move list");
    if member {
        assert!(pushed == 1 && pushed_move == parsed, "C12: a legal move was not played exactly once / another move was played");
        assert!(len_at_push == len0 && len_at_push <= 511, "C15: push reached with a full state stack");
        assert!(ok == data.current_game.is_some(), "C12/C15: after a played move, success is reported iff the game is kept");
        if let Some(g) = data.current_game.as_ref() {
            assert!(g.len() <= MAX_ACCEPTED_LEN, "C15: the position command keeps a game too long for a search to fit in the 512-entry state stack");
        }
    } else {
        assert!(pushed == 0, "C12: a string that is not the text of a legal move was played");
        assert!(!ok, "C12: a string that is not the text of a legal move was accepted without error");
        if parsed.is_none() { assert!(data.current_game.is_none(), "C12: unparsable move keeps the game"); }
    }
    vcover!(member && data.current_game.is_some(), "a move played and the game kept reachable");
    vcover!(member && data.current_game.is_none(), "a move played and the game dropped for length reachable");
    vcover!(!member && parsed.is_some(), "parsed but not legal reachable");
}
/// error texts are irrelevant to the contract; formatting them dominates CBMC's cost
#[cfg(kani)]
pub fn format_empty(_a: core::fmt::Arguments<'_>) -> String { String::new() }
#[cfg(kani)]
pub fn backtrace_disabled() -> std::backtrace::Backtrace { std::backtrace::Backtrace::disabled() }

// =================================================================================================
// self-play loop tail (slice verif_autoplay_tail) -- C15: push is never reached with a full state stack
// =================================================================================================
#[cfg(kani)]
pub mod auto {
    use super::*;
    pub static mut ANSWER: Option<Move> = None;
    pub static mut PUSHES: u8 = 0;
    pub static mut LEN_AT_PUSH: usize = 0;
    pub fn get_best_move_until_stop(_g: &Game, _t: &mut TranspositionTable, _c: &AtomicBool, _d: Option<u8>) -> Option<Move> { unsafe { ANSWER } }
    pub fn push_history(g: &mut Game, _m: Move) { unsafe { PUSHES += 1; LEN_AT_PUSH = g.len(); } }
}
/// For a self-play game of ANY length so far (1..=512 state entries) and any search answer, the tail of
/// the loop body reaches push_history only with at most 511 entries (push's precondition, WF5).
#[cfg(kani)]
#[kani::proof]
#[kani::unwind(3)]
#[kani::stub(crate::search::get_best_move_until_stop, auto::get_best_move_until_stop)]
#[kani::stub(Game::push_history, auto::push_history)]
pub fn autoplay_tail_respects_stack_capacity() {
    use crate::chess::verif_chess::{mk, sym_move};
    let len0 = nd::u16() as usize;
    nd::assume(1 <= len0 && len0 <= 512);
    let mut g = mk::game_with_len(len0);
    let mut cache: TranspositionTable = HashMap::with_hasher(BuildNoHashHasher::default());
    let flag = Arc::new(AtomicBool::new(true));
    unsafe { auto::ANSWER = if nd::bool() { Some(sym_move(nd::u8_in(0, 4))) } else { None }; auto::PUSHES = 0; }
    let _cont = crate::autoplay::verif_autoplay_tail(&mut g, &mut cache, &flag);
    let (pushes, len_at_push) = unsafe { (auto::PUSHES, auto::LEN_AT_PUSH) };
    assert!(pushes <= 1, "autoplay tail plays more than one move per iteration");
    if pushes == 1 { assert!(len_at_push <= 511, "C15: self-play reaches push with a full 512-entry state stack (no length guard)"); }
    vcover!(pushes == 1, "a move is played");
}

/// Native witness for the unguarded self-play loop: 512 plies played into the record by push_history
/// (the only operation the loop performs on the game) overflow the 512-entry state stack.
#[cfg_attr(verif_replay, test)]
pub fn witness_d5_512_plies_overflow_state_stack() {
    let mut g = Game::default();
    let cycle = ["g1f3", "g8f6", "f3g1", "f6g8"];
    for ply in 0..512 {
        let m = Move::from_uci_notation(cycle[ply % 4], &g).unwrap();
        let mut moves = ArrayVec::new();
        g.get_moves(&mut moves, true);
        assert!(moves.iter().any(|x| *x == m));
        g.push_history(m);     // ply 511 (the 512th push) exceeds the stack: debug assertion in arrayvec / UB in release
    }
}

/// native (test, real threads -- not a proof): the timer block of `command_go` (slice verif_timer_block).
/// Whenever a budget exists and the search is not `infinite`, whether or not a depth limit came with it,
/// the block arms a timer that clears the running flag; with a 200 ms budget the flag must be clear
/// within 1.7 s.  Kani cannot compile this block (internal compiler error in the drop glue of
/// JoinHandle: the catch_unwind intrinsic), hence a test.
#[cfg_attr(verif_replay, test)]
#[cfg(not(kani))]
pub fn native_timer_block() {
    for depth in [None, Some(3u8), Some(40u8)] {
        let flag = Arc::new(AtomicBool::new(true));
        let t0 = std::time::Instant::now();
        verif_timer_block(Some(Duration::from_millis(200)), false, depth, &flag);
        while flag.load(Relaxed) {
            assert!(t0.elapsed() < Duration::from_millis(1700),
                    "C13 (test): a budget of 200 ms was given (depth limit {:?}) but the running flag is still set after 1.7 s: no timer enforces the budget", depth);
            thread::sleep(Duration::from_millis(2));
        }
    }
}

/// native (test): the `position` command as a whole on concrete inputs -- the glue around the slices:
/// a refused FEN is an error and leaves NO position behind (not even a previously loaded one), an accepted
/// one replaces it, `moves` are played on the new position, an illegal or malformed move is an error and
/// is not played.
#[cfg_attr(verif_replay, test)]
#[cfg(not(kani))]
pub fn native_position_command() {
    fn run(data: &mut Data, cmd: &str) -> bool {
        let mut terms = cmd.split_ascii_whitespace();
        command_position(data, &mut terms).is_ok()
    }
    let mut data = Data { current_game: None, cache: HashMap::with_hasher(BuildNoHashHasher::default()) };
    assert!(run(&mut data, "startpos moves d2d4 d7d5"), "C12 (test): a legal line is refused");
    let loaded = data.current_game.as_ref().unwrap().fen();
    assert!(loaded.starts_with("rnbqkbnr/ppp1pppp/8/3p4/3P4/8/PPP1PPPP/RNBQKBNR w KQkq"), "C12 (test): the line was not played: {}", loaded);
    for bad in ["rnbqkbn/pppppppp/8/8/8/8/PPPPPPPP/RNBQKBNR w KQkq - 0 1", "8/8/8/8/8/8/8/8 w - - 0 1", "rnbqkbnr/pppppppp/8/8/8/8/PPPPPPPP/RNBQKBNR x KQkq - 0 1",
                "rnbqkbnr/pppppppp/9/8/8/8/PPPPPPPP/RNBQKBNR w KQkq - 0 1", "rnbqkbnr/pppppppp/8/8/8/8/PPPPPPPP/RNBQKBNR w KQkq z9 0 1"] {
        assert!(run(&mut data, "startpos"), "C17 (test): startpos refused");
        let ok = run(&mut data, &format!("fen {} moves e2e4", bad));
        assert!(!ok, "C17 (test): malformed FEN {:?} accepted without error", bad);
        assert!(data.current_game.is_none(), "C17 (test): after the refused FEN {:?} a position is still loaded (the previous one would silently be used)", bad);
    }
    assert!(run(&mut data, "fen 4k3/8/8/8/8/8/4P3/4K3 w - - 0 1 moves e2e4"), "C17 (test): well-formed FEN with moves refused");
    assert!(data.current_game.as_ref().unwrap().fen().starts_with("4k3/8/8/8/4P3/8/8/4K3 b - "), "C12 (test): move after `fen ... moves` not played on the imported position");
    assert!(!run(&mut data, "startpos moves e2e5"), "C12 (test): an illegal move is accepted");
    assert!(!run(&mut data, "startpos moves e2e4 zz"), "C12 (test): a malformed move is accepted");
}
