//! c_gamestate.rs -- child module of `chess::gamestate` (sees the private bitfield).
//! Contracts of GameState: accessors/setters against the bit layout the spec's state key uses,
//! and GameState::hash against the published key table.
use super::*;
use crate::nd;
use crate::spec;

pub fn mk(bits: u8) -> GameState { GameState { bitfield: bits } }
pub fn bits(s: GameState) -> u8 { s.bitfield }

/// C04/C15: GameState::hash() is the published state key of the bitfield, for all 256 values;
/// the unchecked table read is in bounds (Kani pointer checks).
#[cfg_attr(kani, kani::proof)]
#[cfg_attr(verif_replay, test)]
pub fn gs_hash_is_published_key() {
    let b = nd::u8();
    assert!(mk(b).hash() == spec::STATE_KEYS[b as usize], "C04: GameState::hash differs from the published state key");
    vcover!(b == 255, "bitfield 255 reachable");
}

/// accessors read the documented bits; each setter changes exactly its own bit
#[cfg_attr(kani, kani::proof)]
#[cfg_attr(verif_replay, test)]
pub fn gs_accessors_and_setters() {
    let b = nd::u8();
    let s = mk(b);
    assert!(s.en_passant() == (b & 15) as i8, "GameState::en_passant is not the low nibble");
    assert!(s.white_king_castling() == (b & 16 != 0), "white king-side right is not bit 4");
    assert!(s.white_queen_castling() == (b & 32 != 0), "white queen-side right is not bit 5");
    assert!(s.black_king_castling() == (b & 64 != 0), "black king-side right is not bit 6");
    assert!(s.black_queen_castling() == (b & 128 != 0), "black queen-side right is not bit 7");
    let which = nd::u8_in(0, 7);
    let mut t = s;
    let (mask, set) = match which {
        0 => { t.set_white_king_castling_false(); (16u8, false) }
        1 => { t.set_white_king_castling_true(); (16, true) }
        2 => { t.set_white_queen_castling_false(); (32, false) }
        3 => { t.set_white_queen_castling_true(); (32, true) }
        4 => { t.set_black_king_castling_false(); (64, false) }
        5 => { t.set_black_king_castling_true(); (64, true) }
        6 => { t.set_black_queen_castling_false(); (128, false) }
        _ => { t.set_black_queen_castling_true(); (128, true) }
    };
    let want = if set { b | mask } else { b & !mask };
    assert!(t.bitfield == want, "a castling setter changed another bit or not its own");
    vcover!(which == 7 && b == 0, "setter 7 reachable");
}

/// set_en_passant(v) for the values its call sites pass (a file 0..=7, or 8 for none): the
/// castling nibble is untouched and the e.p. nibble is v -- whatever the previous e.p. value.
/// (C15: keeps the bitfield a valid index; C02: the successor's rights are not disturbed.)
#[cfg_attr(kani, kani::proof)]
#[cfg_attr(verif_replay, test)]
pub fn gs_set_en_passant_in_range() {
    let b = nd::u8();
    let v = nd::i8_in(0, 8);
    let mut s = mk(b);
    s.set_en_passant(v);
    assert!(s.bitfield & 0xF0 == b & 0xF0, "set_en_passant disturbed the castling rights");
    assert!(s.en_passant() == v, "set_en_passant did not store the file");
    vcover!(v == 8 && b == 0xF7, "clearing e.p. with all rights reachable");
}

#[cfg_attr(kani, kani::proof)]
#[cfg_attr(verif_replay, test)]
pub fn gs_default_is_no_rights_no_ep() {
    assert!(GameState::default().bitfield == 8, "default state is not `no rights, no e.p.`");
}
